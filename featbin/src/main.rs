//! C17 helper: the same tiny line-protocol server, built once per feature set of `purl`.
//!
//! Request lines (fields hex-encoded UTF-8, `-` for the empty string):
//!   P <string>                                   GenericPurl::<String>::from_str
//!   T <string>                                   Purl::from_str                      (needs package-type, else NA)
//!   B <type> <name> <ns> <version> <subpath> [<key>=<value> ...]   GenericPurlBuilder<String>
//!   U <type> <name> <ns> <version> <subpath> [<key>=<value> ...]   PurlBuilder       (needs package-type, else NA)
//!   Q [<key>=<value> ...] | [<probe> ...]         a Qualifiers collection filled by insert, then get / contains_key
//!                                                 of every probe and ==, partial_cmp of every stored key with it
//! Response: one line, `OK <type> <ns> <name> <version> <subpath> <k=v,...> <canonical>` (hex fields),
//! `ERR <variant debug> | <display>`, `PANIC`, or `NA`.

use std::io::{BufRead, Write};
use std::str::FromStr;

use purl::{GenericPurl, GenericPurlBuilder, PurlShape};

fn unhex(s: &str) -> String {
    if s == "-" {
        return String::new();
    }
    let b: Vec<u8> = (0..s.len() / 2).map(|i| u8::from_str_radix(&s[2 * i..2 * i + 2], 16).unwrap_or(b'?')).collect();
    String::from_utf8_lossy(&b).into_owned()
}

fn hex(s: &str) -> String {
    if s.is_empty() {
        return "-".to_string();
    }
    s.bytes().map(|b| format!("{b:02x}")).collect()
}

fn ok_line<T: PurlShape>(p: &GenericPurl<T>) -> String {
    let quals: Vec<String> = p.qualifiers().iter().map(|(k, v)| format!("{}={}", hex(k.as_str()), hex(v))).collect();
    format!(
        "OK {} {} {} {} {} {} {}",
        hex(&p.package_type().package_type()),
        hex(p.namespace().unwrap_or("")),
        hex(p.name()),
        hex(p.version().unwrap_or("")),
        hex(p.subpath().unwrap_or("")),
        if quals.is_empty() { "-".to_string() } else { quals.join(",") },
        hex(&p.to_string()),
    )
}

fn outcome<T: PurlShape, E: std::fmt::Debug + std::fmt::Display>(r: Result<GenericPurl<T>, E>) -> String {
    match r {
        Ok(p) => ok_line(&p),
        Err(e) => format!("ERR {e:?} | {e}"),
    }
}

fn build_generic(f: &[&str]) -> String {
    if f.len() < 5 {
        return "BADREQ".into();
    }
    let mut b = GenericPurlBuilder::new(unhex(f[0]), unhex(f[1]))
        .with_namespace(unhex(f[2]))
        .with_version(unhex(f[3]))
        .with_subpath(unhex(f[4]));
    for kv in &f[5..] {
        let Some((k, v)) = kv.split_once('=') else { return "BADREQ".into() };
        b = match b.with_qualifier(unhex(k), unhex(v)) {
            Ok(b) => b,
            Err(e) => return format!("ERR {e:?} | {e}"),
        };
    }
    outcome(b.build())
}

#[cfg(feature = "package-type")]
fn typed_parse(s: &str) -> String {
    outcome(purl::Purl::from_str(s))
}

#[cfg(not(feature = "package-type"))]
fn typed_parse(_s: &str) -> String {
    "NA".into()
}

#[cfg(feature = "package-type")]
fn build_typed(f: &[&str]) -> String {
    if f.len() < 5 {
        return "BADREQ".into();
    }
    let Ok(t) = purl::PackageType::from_str(&unhex(f[0])) else { return "ERR UnknownTypeInRequest | -".into() };
    let mut b = purl::PurlBuilder::new(t, unhex(f[1])).with_namespace(unhex(f[2])).with_version(unhex(f[3])).with_subpath(unhex(f[4]));
    for kv in &f[5..] {
        let Some((k, v)) = kv.split_once('=') else { return "BADREQ".into() };
        b = match b.with_qualifier(unhex(k), unhex(v)) {
            Ok(b) => b,
            Err(e) => return format!("ERR {e:?} | {e}"),
        };
    }
    outcome(b.build())
}

#[cfg(not(feature = "package-type"))]
fn build_typed(_f: &[&str]) -> String {
    "NA".into()
}

fn collection(f: &[&str]) -> String {
    let mut q = purl::Qualifiers::default();
    let mut out = String::from("Q");
    let mut probes = false;
    for field in f {
        if *field == "|" {
            probes = true;
            out.push_str(&format!(" len={}", q.len()));
            continue;
        }
        if !probes {
            let Some((k, v)) = field.split_once('=') else { return "BADREQ".into() };
            match q.insert(unhex(k), unhex(v)) {
                Ok(_) => out.push_str(" +"),
                Err(e) => out.push_str(&format!(" E({e:?})")),
            }
        } else {
            let p = unhex(field);
            out.push_str(&format!(" [{}:{}:", hex(q.get(p.as_str()).unwrap_or("")), q.contains_key(p.as_str())));
            for (k, _) in q.iter() {
                let eq = k == p.as_str();
                let c = match k.partial_cmp(p.as_str()) {
                    Some(std::cmp::Ordering::Less) => '<',
                    Some(std::cmp::Ordering::Equal) => '=',
                    Some(std::cmp::Ordering::Greater) => '>',
                    None => '?',
                };
                out.push(if eq { 'E' } else { 'n' });
                out.push(c);
            }
            out.push(']');
        }
    }
    out
}

fn main() {
    std::panic::set_hook(Box::new(|_| {}));
    let stdin = std::io::stdin();
    let stdout = std::io::stdout();
    let mut out = std::io::BufWriter::new(stdout.lock());
    for line in stdin.lock().lines() {
        let Ok(line) = line else { break };
        if line == "FLUSH" {
            let _ = out.flush();
            continue;
        }
        let fields: Vec<&str> = line.split(' ').collect();
        let resp = std::panic::catch_unwind(|| match fields[0] {
            "P" => outcome(GenericPurl::<String>::from_str(&unhex(fields.get(1).copied().unwrap_or("-")))),
            "T" => typed_parse(&unhex(fields.get(1).copied().unwrap_or("-"))),
            "B" => build_generic(&fields[1..]),
            "U" => build_typed(&fields[1..]),
            "Q" => collection(&fields[1..]),
            _ => "BADREQ".to_string(),
        })
        .unwrap_or_else(|_| "PANIC".to_string());
        let _ = writeln!(out, "{resp}");
    }
    let _ = out.flush();
}
