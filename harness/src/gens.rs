//! G-soup, G-corpus, G-tokens.

use proptest::prelude::*;
use proptest::sample::select;

use crate::chars::{gchar, gtext};

pub const CORPUS_TEXT: &str = include_str!("../../corpus/conformance.txt");

pub fn corpus() -> Vec<&'static str> {
    CORPUS_TEXT.lines().filter(|l| !l.is_empty()).collect()
}

pub const SOUP_TOKENS: &[&str] = &[
    "/", "//", "@", "?", "#", "=", "&", ":", ",", ".", "..", "%", "%2F", "%2f", "%2e", "%2E", "%41", "%80", "%C3%A9", "%25",
    "%26", "%3D", "%40", "%23", "%3F", "%00", "%zz", "%4", "+", " ", "a", "B", "k", "K", "n", "1", "00", "checksum", "Checksum",
    "sha1:", "pkg:", "t", "T", "npm", "maven", "pypi", "nuget", "NuGet", "golang", "cargo", "gem", "é", "ǅ", "\u{0}",
    "\u{7f}", "\"", "<", ">", "`", "{", "}", "|", "repository_url", "a=b", "k=v&", "?k=", "#s", "@1",
];

/// Token soup, mostly behind a `pkg:type/` prefix. For robustness-type checks only.
pub fn gsoup() -> BoxedStrategy<String> {
    let piece = prop_oneof![
        8 => select(SOUP_TOKENS).prop_map(str::to_string),
        2 => gtext(0),
        1 => gchar().prop_map(|c| c.to_string()),
    ];
    let prefix = prop_oneof![
        6 => select(&["pkg:t/", "pkg:npm/", "pkg:maven/g/", "pkg:pypi/", "pkg:nuget/", "pkg:/T//", "pkg:golang/a/b/", "pkg:cargo/n?", "pkg:gem/n#", "pkg:t/n@"][..]).prop_map(str::to_string),
        2 => Just("pkg:".to_string()),
        1 => Just(String::new()),
    ];
    (prefix, proptest::collection::vec(piece, 0..=12)).prop_map(|(p, v)| format!("{p}{}", v.concat())).boxed()
}

/// Any string at all.
pub fn gany_string() -> BoxedStrategy<String> {
    prop_oneof![
        3 => any::<String>(),
        1 => ".*".prop_map(|s: String| format!("pkg:{s}")),
        1 => ".*".prop_map(|s: String| format!("pkg:t/{s}")),
    ]
    .boxed()
}

/// Conformance strings with byte/char-level mutations.
pub fn gcorpus_mut() -> BoxedStrategy<String> {
    let c = corpus();
    let n = c.len();
    (0..n, proptest::collection::vec((any::<u16>(), 0u8..6, gchar(), select(SOUP_TOKENS)), 0..=4))
        .prop_map(move |(i, muts)| {
            let mut s: Vec<char> = c[i].chars().collect();
            for (pos, kind, ch, tok) in muts {
                let len = s.len();
                let p = if len == 0 { 0 } else { (pos as usize * (len + 1)) >> 16 };
                match kind {
                    0 => {
                        if p < len {
                            s.remove(p);
                        }
                    },
                    1 => s.insert(p.min(len), ch),
                    2 => {
                        if p < len {
                            s[p] = ch;
                        }
                    },
                    3 => {
                        let t: Vec<char> = tok.chars().collect();
                        let at = p.min(len);
                        s.splice(at..at, t);
                    },
                    4 => {
                        if p < len {
                            let c = s[p];
                            s[p] = if c.is_ascii_uppercase() { c.to_ascii_lowercase() } else { c.to_ascii_uppercase() };
                        }
                    },
                    _ => {
                        if p < len {
                            let c = s[p];
                            s.insert(p, c);
                        }
                    },
                }
            }
            s.into_iter().collect::<String>()
        })
        .boxed()
}

// ---------------------------------------------------------------------------------------------
// G-tokens

pub const TOKENS23: &[&str] = &[
    "/", "@", "?", "#", "=", "&", ":", ",", ".", "..", "t", "T", "a", "k", "K", "1", "00", "checksum", "%2F", "%2e", "%41",
    "%80", "+",
];

pub const QTOKENS12: &[&str] = &["k", "K", "a", "=", "&", "checksum", "00", ":", ",", "%41", "%80", "#"];

#[derive(Clone, Copy, Debug)]
pub struct Stratum {
    pub name: &'static str,
    pub prefix: &'static str,
    pub tokens: &'static [&'static str],
    pub max_len: u32,
}

impl Stratum {
    pub fn count(&self) -> u64 {
        let k = self.tokens.len() as u64;
        (0..=self.max_len).map(|l| k.pow(l)).sum()
    }

    /// `None` for a token sequence in which "." is directly followed by "." or ".." - the same
    /// string is produced by a sequence with fewer tokens, so every string appears exactly once.
    pub fn make(&self, mut idx: u64) -> Option<String> {
        let k = self.tokens.len() as u64;
        let mut len = 0u32;
        loop {
            let n = k.pow(len);
            if idx < n {
                break;
            }
            idx -= n;
            len += 1;
        }
        let mut s = String::with_capacity(self.prefix.len() + 4 * len as usize);
        s.push_str(self.prefix);
        // most significant token first
        let mut div = k.pow(len.saturating_sub(1));
        let mut prev_dot = false;
        for _ in 0..len {
            let d = idx / div;
            idx %= div;
            let tok = self.tokens[d as usize];
            if prev_dot && (tok == "." || tok == "..") {
                return None;
            }
            prev_dot = tok == ".";
            s.push_str(tok);
            div = (div / k).max(1);
        }
        Some(s)
    }
}

/// The strata of the bounded token language (DESIGN.md 3.1), with length bound `l` (`lq` for the
/// qualifier stratum).
pub fn strata(l: u32, lq: u32) -> Vec<Stratum> {
    vec![
        Stratum { name: "no-scheme", prefix: "", tokens: TOKENS23, max_len: 3 },
        Stratum { name: "pkg:", prefix: "pkg:", tokens: TOKENS23, max_len: l },
        Stratum { name: "pkg:t/", prefix: "pkg:t/", tokens: TOKENS23, max_len: l },
        Stratum { name: "pkg:/T/a/", prefix: "pkg:/T/a/", tokens: TOKENS23, max_len: l },
        Stratum { name: "pkg:t/n?", prefix: "pkg:t/n?", tokens: QTOKENS12, max_len: lq },
        Stratum { name: "pkg:t/n?k=a", prefix: "pkg:t/n?k=a", tokens: QTOKENS12, max_len: lq },
        Stratum { name: "pkg:t/n?checksum=a:00", prefix: "pkg:t/n?checksum=a:00", tokens: QTOKENS12, max_len: lq },
        Stratum { name: "pkg:t/n?checksum=a1:00", prefix: "pkg:t/n?checksum=a1:00", tokens: QTOKENS12, max_len: lq },
    ]
}

pub fn strata_total(st: &[Stratum]) -> u64 {
    st.iter().map(|s| s.count()).sum()
}

pub fn strata_make(st: &[Stratum], mut idx: u64) -> Option<String> {
    for s in st {
        let c = s.count();
        if idx < c {
            return s.make(idx);
        }
        idx -= c;
    }
    None
}

#[cfg(test)]
mod tests {
    use super::*;

    #[test]
    fn stratum_enumerates_distinct() {
        let s = Stratum { name: "x", prefix: "p", tokens: &["a", "b", "c"], max_len: 3 };
        assert_eq!(s.count(), 1 + 3 + 9 + 27);
        let all: std::collections::BTreeSet<String> = (0..s.count()).filter_map(|i| s.make(i)).collect();
        assert_eq!(all.len() as u64, s.count());
        let d = Stratum { name: "x", prefix: "", tokens: &[".", "..", "a"], max_len: 4 };
        let v: Vec<String> = (0..d.count()).filter_map(|i| d.make(i)).collect();
        let set: std::collections::BTreeSet<String> = v.iter().cloned().collect();
        assert_eq!(v.len(), set.len());
        assert!(set.contains("...."));
        assert!(set.contains(".a."));
        assert!(all.contains("p"));
        assert!(all.contains("pcba"));
    }
}
