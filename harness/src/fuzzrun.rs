//! Thorough-tier libFuzzer campaigns (cargo-fuzz targets in `harness/fuzz`) and the replay of
//! fuzz inputs through the deterministic in-process oracles.

use std::path::{Path, PathBuf};
use std::process::{Command, Stdio};
use std::time::Instant;

use serde::{Deserialize, Serialize};
use serde_json::{json, Value};

use crate::engine::{Ctx, Failure, SectionReport, Stats, Tier};

/// A fuzz input as stored in replay files and in `corpus/fuzz-seed/<target>/`.
#[derive(Clone, Debug, Serialize, Deserialize)]
pub struct FuzzInput {
    pub target: String,
    pub hex: String,
    /// lossy text rendering, for the reader only
    #[serde(default)]
    pub text: String,
    /// the property whose oracle judges this input ("" = every oracle of the harness)
    #[serde(default)]
    pub scope: String,
}

pub fn unhex(s: &str) -> Vec<u8> {
    (0..s.len() / 2).filter_map(|i| u8::from_str_radix(&s[2 * i..2 * i + 2], 16).ok()).collect()
}

pub fn to_hex(b: &[u8]) -> String {
    b.iter().map(|x| format!("{x:02x}")).collect()
}

pub fn oracle(c: &FuzzInput, st: &mut Stats) -> Result<(), String> {
    let bytes = unhex(&c.hex);
    let scope = if c.scope.is_empty() { None } else { Some(c.scope.as_str()) };
    let r = match c.target.as_str() {
        "fz_roundtrip" => match std::str::from_utf8(&bytes) {
            Ok(s) => crate::fuzzing::string_oracles_scoped(s, scope),
            Err(_) => Ok(()),
        },
        "fz_api" => crate::fuzzing::api_oracles_scoped(&bytes, scope),
        other => Err(format!("bad replay case: unknown fuzz target {other}")),
    };
    st.class("fuzz-input-replayed");
    r
}

/// The committed seed corpus of a target.
pub fn seed_corpus(root: &Path, target: &str, scope: &str) -> Vec<FuzzInput> {
    let dir = root.join("corpus/fuzz-seed").join(target);
    let mut files: Vec<PathBuf> = std::fs::read_dir(&dir).map(|rd| rd.filter_map(|e| e.ok().map(|e| e.path())).collect()).unwrap_or_default();
    files.sort();
    files
        .iter()
        .filter_map(|p| std::fs::read(p).ok())
        .map(|b| FuzzInput { target: target.to_string(), hex: to_hex(&b), text: String::from_utf8_lossy(&b).chars().take(200).collect(), scope: scope.to_string() })
        .collect()
}

fn stat(log: &str, key: &str) -> Option<u64> {
    log.lines().rev().find_map(|l| l.strip_prefix(key).and_then(|r| r.trim().parse().ok()))
}

/// Run one campaign; reports into `ctx` (section report, failure, infra errors).
pub fn campaign(ctx: &mut Ctx, target: &'static str, section: &str, total_runs: u64, max_len: u32) -> Value {
    if ctx.tier != Tier::Thorough || ctx.failure.is_some() {
        return Value::Null;
    }
    let t0 = Instant::now();
    // the engine's watchdog looks for progress ticks; building and fuzzing are bounded by their own
    // limits (libFuzzer -timeout per input, the wall-clock deadline below), so keep ticking
    let done = std::sync::Arc::new(std::sync::atomic::AtomicBool::new(false));
    let ticker = {
        let done = done.clone();
        std::thread::spawn(move || {
            while !done.load(std::sync::atomic::Ordering::Relaxed) {
                crate::engine::tick();
                std::thread::sleep(std::time::Duration::from_millis(500));
            }
        })
    };
    let r = campaign_inner(ctx, target, section, total_runs, max_len, t0);
    done.store(true, std::sync::atomic::Ordering::Relaxed);
    let _ = ticker.join();
    r
}

fn campaign_inner(ctx: &mut Ctx, target: &'static str, section: &str, total_runs: u64, max_len: u32, t0: Instant) -> Value {
    // (VERIF_FUZZ_RUNS overrides the campaign size, for trying the machinery out)
    let total_runs = std::env::var("VERIF_FUZZ_RUNS").ok().and_then(|v| v.parse().ok()).unwrap_or(total_runs);
    let fuzz_dir = ctx.root.join("harness/fuzz");
    let build = Command::new("cargo")
        .args(["+nightly", "fuzz", "build", target])
        .current_dir(ctx.root.join("harness"))
        .env("CARGO_NET_OFFLINE", "true")
        .stdout(Stdio::null())
        .stderr(Stdio::piped())
        .output();
    match build {
        Ok(o) if o.status.success() => {},
        Ok(o) => {
            ctx.infra_errors.push(format!(
                "cargo +nightly fuzz build {target} failed: {}",
                String::from_utf8_lossy(&o.stderr).lines().rev().take(5).collect::<Vec<_>>().join(" | ")
            ));
            return Value::Null;
        },
        Err(e) => {
            ctx.infra_errors.push(format!("cannot run cargo fuzz: {e}"));
            return Value::Null;
        },
    }
    let exe = fuzz_dir.join("target/x86_64-unknown-linux-gnu/release").join(target);
    let scratch = fuzz_dir.join(format!("run-{target}-{}", std::process::id()));
    let _ = std::fs::remove_dir_all(&scratch);
    let jobs = crate::engine::WORKERS as u64;
    // libFuzzer dictionary: the string literals of the source tree under test (see `dict`)
    let _ = std::fs::create_dir_all(&scratch);
    let dict_path = scratch.join("dictionary");
    {
        let mut text = String::new();
        for s in &crate::dict::dict().strings {
            let esc: String = s.bytes().map(|b| if b.is_ascii_alphanumeric() { (b as char).to_string() } else { format!("\\x{b:02x}") }).collect();
            text.push_str(&format!("\"{esc}\"\n"));
        }
        let _ = std::fs::write(&dict_path, text);
    }
    let mut children = Vec::new();
    for j in 0..jobs {
        let corpus = scratch.join(format!("corpus{j}"));
        let art = scratch.join(format!("artifacts{j}"));
        let _ = std::fs::create_dir_all(&corpus);
        let _ = std::fs::create_dir_all(&art);
        // half of the jobs start from the committed seed corpus, half from an empty one
        let seed_dir = ctx.root.join("corpus/fuzz-seed").join(target);
        let mut cmd = Command::new(&exe);
        cmd.env("PV_FUZZ_SCOPE", ctx.prop);
        cmd.arg(&corpus);
        if j % 2 == 0 && seed_dir.is_dir() {
            cmd.arg(&seed_dir);
        }
        cmd.arg(format!("-runs={}", total_runs / jobs))
            .arg(format!("-seed={}", (ctx.seed.wrapping_mul(1000).wrapping_add(j + 1)) % 4_000_000_000))
            .arg(format!("-max_len={max_len}"))
            .arg("-len_control=0")
            .arg("-timeout=30")
            // libFuzzer's RSS limit reads getrusage's ru_maxrss, which a freshly exec'ed child inherits from
            // the RSS of the process that spawned it: after the big sections of a thorough run this harness is
            // larger than any sensible limit and every job would stop at once with an `oom-` artefact for the
            // empty input. The limit on a single allocation stays; the resident size is watched below instead.
            .arg("-rss_limit_mb=0")
            .arg("-malloc_limit_mb=2048")
            .arg("-print_final_stats=1")
            .arg(format!("-dict={}", dict_path.display()))
            .arg(format!("-artifact_prefix={}/", art.display()))
            .stdout(Stdio::null());
        // libFuzzer's log goes to a file: a pipe would fill up while we poll for the exit
        let log_path = scratch.join(format!("log{j}"));
        match std::fs::File::create(&log_path) {
            Ok(f) => {
                cmd.stderr(Stdio::from(f));
            },
            Err(_) => {
                cmd.stderr(Stdio::null());
            },
        }
        match cmd.spawn() {
            Ok(c) => children.push((j, c, art, corpus, log_path)),
            Err(e) => ctx.infra_errors.push(format!("cannot start {}: {e}", exe.display())),
        }
    }
    let mut execs = 0u64;
    let mut corpus_units = 0u64;
    let mut max_cov = 0u64;
    let mut artifacts: Vec<PathBuf> = Vec::new();
    let deadline = Instant::now() + std::time::Duration::from_secs(3600);
    for (j, mut child, art, corpus, log_path) in children {
        // a hard wall-clock limit per campaign: a job that is still running then is killed and the
        // run is inconclusive (exit 2), never a violation
        loop {
            match child.try_wait() {
                Ok(Some(_)) | Err(_) => break,
                Ok(None) if Instant::now() > deadline => {
                    let _ = child.kill();
                    ctx.infra_errors.push(format!("fuzz job {j} of {target} exceeded the wall-clock limit and was stopped"));
                    break;
                },
                Ok(None) => {
                    let rss_kb = std::fs::read_to_string(format!("/proc/{}/status", child.id()))
                        .ok()
                        .and_then(|s| s.lines().find(|l| l.starts_with("VmRSS:")).and_then(|l| l.split_whitespace().nth(1).and_then(|v| v.parse::<u64>().ok())))
                        .unwrap_or(0);
                    if rss_kb > 6 * 1024 * 1024 {
                        let _ = child.kill();
                        ctx.infra_errors.push(format!("fuzz job {j} of {target} grew beyond 6 GiB resident and was stopped"));
                        break;
                    }
                    std::thread::sleep(std::time::Duration::from_millis(200))
                },
            }
        }
        let status = child.wait();
        if let Ok(status) = status {
            let log = std::fs::read_to_string(&log_path).unwrap_or_default();
            execs += stat(&log, "stat::number_of_executed_units:").unwrap_or(0);
            if let Some(l) = log.lines().rev().find(|l| l.contains(" cov: ")) {
                if let Some(c) = l.split(" cov: ").nth(1).and_then(|r| r.split_whitespace().next()).and_then(|v| v.parse::<u64>().ok()) {
                    max_cov = max_cov.max(c);
                }
            }
            if !status.success() && std::fs::read_dir(&art).map(|d| d.count()).unwrap_or(0) == 0 {
                ctx.infra_errors.push(format!("fuzz job {j} of {target} exited with {status} without an artefact"));
            }
        }
        corpus_units += std::fs::read_dir(&corpus).map(|d| d.count() as u64).unwrap_or(0);
        if let Ok(rd) = std::fs::read_dir(&art) {
            artifacts.extend(rd.filter_map(|e| e.ok().map(|e| e.path())));
        }
    }
    artifacts.sort();
    let mut confirmed = 0;
    for a in &artifacts {
        let Ok(bytes) = std::fs::read(a) else { continue };
        let name = a.file_name().map(|n| n.to_string_lossy().to_string()).unwrap_or_default();
        let input = FuzzInput { target: target.to_string(), hex: to_hex(&bytes), text: String::from_utf8_lossy(&bytes).chars().take(300).collect(), scope: ctx.prop.to_string() };
        if name.starts_with("timeout-") || name.starts_with("oom-") || name.starts_with("slow-unit-") {
            ctx.infra_errors.push(format!("fuzz artefact {name} (timeout / memory): inconclusive, input hex {}", input.hex));
            continue;
        }
        match oracle(&input, &mut Stats::scratch()) {
            Err(m) => {
                confirmed += 1;
                if ctx.failure.is_none() {
                    ctx.failure = Some(Failure {
                        section: section.to_string(),
                        case: serde_json::to_value(&input).unwrap(),
                        message: m,
                        found_by: format!("libFuzzer target {target}, artefact {name}"),
                    });
                }
            },
            Ok(()) => ctx
                .infra_errors
                .push(format!("fuzz artefact {name} of {target} is not confirmed by the deterministic oracle (input hex {})", input.hex)),
        }
    }
    let _ = std::fs::remove_dir_all(&scratch);
    let mut classes = std::collections::BTreeMap::new();
    classes.insert("libfuzzer-executions", execs);
    classes.insert("libfuzzer-final-corpus-units", corpus_units);
    classes.insert("libfuzzer-max-coverage-edges", max_cov);
    classes.insert("libfuzzer-artefacts", artifacts.len() as u64);
    ctx.reports.push(SectionReport {
        name: format!("libfuzzer:{target}"),
        kind: "fuzz",
        evaluations: execs,
        distinct_nontrivial: corpus_units,
        classes,
        samples: vec![],
        excluded: Default::default(),
        exhaustive: false,
        space: None,
        wall_s: t0.elapsed().as_secs_f64(),
    });
    json!({ "target": target, "executions": execs, "final_corpus_units": corpus_units, "max_coverage_edges": max_cov, "artefacts": artifacts.len(), "confirmed_by_oracle": confirmed, "jobs": jobs })
}
