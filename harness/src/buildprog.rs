//! G-build (builder programs), their interpreter against the library, and M-builder (the model).

use std::collections::BTreeMap;

use proptest::prelude::*;
use proptest::sample::select;
use purl::qualifiers::well_known::{Checksum, RepositoryUrl};
use purl::{GenericPurl, GenericPurlBuilder};
use serde::{Deserialize, Serialize};

use crate::api::{observe, text, Inst, SmallString};
use crate::chars::{gkey, gtext, gtype, is_valid_key, is_valid_type, KNOWN_TYPES};
use crate::engine::guard;
use crate::model::{self, Obs};
use crate::spell::galgorithm;

#[derive(Clone, Debug, Serialize, Deserialize, PartialEq, Eq, Hash)]
pub enum CkVal {
    /// `Checksum::insert(alg, bytes)`
    Bytes(Vec<u8>),
    /// `Checksum::insert_raw(alg, text)`
    Raw(String),
}

#[derive(Clone, Debug, Serialize, Deserialize, PartialEq, Eq, Hash)]
pub enum Op {
    Namespace(String),
    NoNamespace,
    Name(String),
    Version(String),
    NoVersion,
    Subpath(String),
    NoSubpath,
    Type(String),
    Qualifier(String, String),
    NoQualifier(String),
    NoQualifiers,
    RepoUrl(Option<String>),
    Checksum(Option<Vec<(String, CkVal)>>),
    PartsNamespace(String),
    PartsName(String),
    PartsVersion(String),
    PartsSubpath(String),
    PartsType(String),
    PartsQualifierInsert(String, String),
    PartsQualifierRemove(String),
}

#[derive(Clone, Copy, Debug, PartialEq, Eq, PartialOrd, Ord)]
pub enum Field {
    Namespace,
    Name,
    Version,
    Subpath,
    Type,
    Qualifiers,
}

impl Op {
    pub fn field(&self) -> Field {
        match self {
            Op::Namespace(_) | Op::NoNamespace | Op::PartsNamespace(_) => Field::Namespace,
            Op::Name(_) | Op::PartsName(_) => Field::Name,
            Op::Version(_) | Op::NoVersion | Op::PartsVersion(_) => Field::Version,
            Op::Subpath(_) | Op::NoSubpath | Op::PartsSubpath(_) => Field::Subpath,
            Op::Type(_) | Op::PartsType(_) => Field::Type,
            _ => Field::Qualifiers,
        }
    }
}

#[derive(Clone, Debug, Serialize, Deserialize, PartialEq, Eq, Hash)]
pub struct Program {
    pub ty: String,
    pub name: String,
    pub ops: Vec<Op>,
}

// ---------------------------------------------------------------------------------------------
// generators

pub const HANDPICKED: &[&str] = &[
    "", "/", ".", "..", "a/./b", "/a//b/", "%2F", "%zz", "a&b=c", "//", "a//b", "a/b", "n", "1.0", "@", "?", "#", "a@b", "a?b#c",
    "%41", "%", "+", " ", "É", "ǅ", "A_b.C", "a--b", "-", "_", "a b", "a_É.b", "x.ǅǈ-y", "01.1", "1.01", "1.10", "1.9", "001", "0.0.1",
];

pub fn garg() -> BoxedStrategy<String> {
    prop_oneof![
        3 => gtext(0),
        2 => select(HANDPICKED).prop_map(str::to_string),
    ]
    .boxed()
}

pub const KEY_UNIVERSE: &[&str] = &[
    "a", "A", "b", "B", "k", "K.1", "k.1", "repository_url", "Repository_URL", "checksum", "CHECKSUM", "Checksum", "", "!", "a b",
    "é", "a=b", "%61", "z-9_", "9", "1a", ".a", "-", "_", "a_", "ab", "a_b", "a-", "a.", "file_name", "filename", "a0", "aa", "AA",
    // longer than the inline capacity of the small-string type, with '_' / upper case / a long common prefix
    "build_environment_variables_x",
    "buildEnvironmentVariablesFlag",
    "build_environment_variables_a",
    "buildenvironmentvariablesflag",
    "kkkkkkkkkkkkkkkkkkkkkkkkkkkkkkkkkkkkkkkkkkkkkkkkkkkkkkkkkkkkkkkka",
    "kkkkkkkkkkkkkkkkkkkkkkkkkkkkkkkkkkkkkkkkkkkkkkkkkkkkkkkkkkkkkkkkb",
    "KKKKKKKKKKKKKKKKKKKKKKKKKKKKKKKKKKKKKKKKKKKKKKKKKKKKKKKKKKKKKKKKA",
];

pub fn gkey_any() -> BoxedStrategy<String> {
    prop_oneof![
        8 => select(KEY_UNIVERSE).prop_map(str::to_string),
        4 => gkey(),
        2 => crate::chars::gliteral(),
        2 => gtext(0),
        // the keys of the qualifier bursts, in either letter case
        1 => (0usize..36, any::<bool>()).prop_map(|(i, up)| if up { format!("Q{i:02}") } else { format!("q{i:02}") }),
    ]
    .boxed()
}

pub fn gckval() -> BoxedStrategy<CkVal> {
    prop_oneof![
        4 => proptest::collection::vec(any::<u8>(), 0..=4).prop_map(CkVal::Bytes),
        2 => select(&["00", "AB", "ab", "aBcD", "", "0123456789abcdefABCDEF"][..]).prop_map(|s| CkVal::Raw(s.to_string())),
        1 => select(&["0", "zz", "0G", "0x", " 00", "é", "abc", "1", "A"][..]).prop_map(|s| CkVal::Raw(s.to_string())),
        1 => (129usize..=300, any::<bool>()).prop_map(|(n, up)| CkVal::Raw(if up { "AB".repeat(n) } else { "ab".repeat(n) })),
    ]
    .boxed()
}

pub fn gck_entries() -> BoxedStrategy<Vec<(String, CkVal)>> {
    proptest::collection::vec((galgorithm(), gckval()), 0..=4).boxed()
}

/// A checksum qualifier *text* (valid or not) for `with_qualifier("checksum", ..)`.
pub fn gck_text() -> BoxedStrategy<String> {
    prop_oneof![
        3 => select(&["sha1:00", "B:ff,a:00", "SHA1:AB", "a:0", "a", "a:zz", "a:00,A:11", "a:00,,b:11", ":", "a:", "é:00", "x:y:00"][..])
            .prop_map(str::to_string),
        1 => gtext(0),
    ]
    .boxed()
}

fn gtype_arg(typed: bool) -> BoxedStrategy<String> {
    if typed {
        select(KNOWN_TYPES).prop_map(str::to_string).boxed()
    } else {
        prop_oneof![
            5 => gtype(),
            2 => select(KNOWN_TYPES).prop_map(str::to_string),
            1 => crate::chars::gliteral(),
            2 => select(&["", "!", "a b", "%41", "é", "t_x", "T", "9p", "c++", "a.b-c+D1", "\u{212A}", "ſ", "a/b", "a@1"][..]).prop_map(str::to_string),
            1 => gtext(0),
        ]
        .boxed()
    }
}

pub fn gop(typed: bool) -> BoxedStrategy<Op> {
    prop_oneof![
        3 => garg().prop_map(Op::Namespace),
        1 => Just(Op::NoNamespace),
        3 => garg().prop_map(Op::Name),
        3 => garg().prop_map(Op::Version),
        1 => Just(Op::NoVersion),
        3 => garg().prop_map(Op::Subpath),
        1 => Just(Op::NoSubpath),
        2 => gtype_arg(typed).prop_map(Op::Type),
        5 => (gkey_any(), garg()).prop_map(|(k, v)| Op::Qualifier(k, v)),
        1 => gck_text().prop_map(|v| Op::Qualifier("checksum".into(), v)),
        2 => gkey_any().prop_map(Op::NoQualifier),
        1 => Just(Op::NoQualifiers),
        1 => proptest::option::weighted(0.7, garg()).prop_map(Op::RepoUrl),
        2 => proptest::option::weighted(0.8, gck_entries()).prop_map(Op::Checksum),
        1 => garg().prop_map(Op::PartsNamespace),
        1 => garg().prop_map(Op::PartsName),
        1 => garg().prop_map(Op::PartsVersion),
        1 => garg().prop_map(Op::PartsSubpath),
        1 => gtype_arg(typed).prop_map(Op::PartsType),
        1 => (gkey_any(), garg()).prop_map(|(k, v)| Op::PartsQualifierInsert(k, v)),
        1 => gkey_any().prop_map(Op::PartsQualifierRemove),
    ]
    .boxed()
}

pub fn gprogram(typed: bool) -> BoxedStrategy<Program> {
    // now and then the program starts with a burst of more than 16 / 32 distinct qualifiers
    let burst = prop_oneof![
        14 => Just(0usize),
        1 => 17usize..=36,
        1 => crate::spell::gcount(70),
    ];
    (gtype_arg(typed), garg(), burst, proptest::collection::vec(gop(typed), 0..=10))
        .prop_map(|(ty, name, burst, ops)| {
            let mut all: Vec<Op> = (0..burst).map(|i| Op::Qualifier(format!("q{i:02}"), "v".to_string())).collect();
            all.extend(ops);
            Program { ty, name, ops: all }
        })
        .boxed()
}

// ---------------------------------------------------------------------------------------------
// interpreter

#[derive(Clone, Debug, PartialEq, Eq)]
pub enum Outcome {
    /// build() succeeded: accessors and string
    Built(Obs, String),
    /// build() failed with this error kind
    BuildErr(String),
    /// a fallible builder call (with_qualifier / try_with_typed_qualifier) failed; the chain ends
    CallErr(usize, String),
    Panicked(String),
    /// a typed program names a type the harness cannot construct (harness bug)
    BadType(String),
}

pub fn make_checksum(entries: &[(String, CkVal)]) -> Checksum<'static> {
    let mut c = Checksum::default();
    for (alg, v) in entries {
        match v {
            CkVal::Bytes(b) => c.insert(alg, b.clone()),
            CkVal::Raw(s) => c.insert_raw(alg, s.clone()),
        }
    }
    c
}

pub fn run<I: Inst>(p: &Program) -> (Outcome, Option<GenericPurl<I::T>>) {
    let r = guard(|| run_inner::<I>(p));
    match r {
        Ok(x) => x,
        Err(m) => (Outcome::Panicked(m), None),
    }
}

fn run_inner<I: Inst>(p: &Program) -> (Outcome, Option<GenericPurl<I::T>>) {
    let Some(ty) = I::make_type(&p.ty) else { return (Outcome::BadType(p.ty.clone()), None) };
    let mut b: GenericPurlBuilder<I::T> = GenericPurlBuilder::new(ty, p.name.as_str());
    for (i, op) in p.ops.iter().enumerate() {
        b = match op {
            Op::Namespace(s) => b.with_namespace(s.as_str()),
            Op::NoNamespace => b.without_namespace(),
            Op::Name(s) => b.with_name(s.as_str()),
            Op::Version(s) => b.with_version(s.clone()),
            Op::NoVersion => b.without_version(),
            Op::Subpath(s) => b.with_subpath(s.as_str()),
            Op::NoSubpath => b.without_subpath(),
            Op::Type(s) => {
                let Some(t) = I::make_type(s) else { return (Outcome::BadType(s.clone()), None) };
                b.with_package_type(t)
            },
            Op::Qualifier(k, v) => match b.with_qualifier(k.as_str(), v.as_str()) {
                Ok(b) => b,
                Err(e) => return (Outcome::CallErr(i, crate::api::parse_err_kind(&e)), None),
            },
            Op::NoQualifier(k) => b.without_qualifier(k.as_str()),
            Op::NoQualifiers => b.without_qualifiers(),
            Op::RepoUrl(u) => b.with_typed_qualifier(u.as_deref().map(RepositoryUrl::from)),
            Op::Checksum(c) => match b.try_with_typed_qualifier(c.as_ref().map(|e| make_checksum(e))) {
                Ok(b) => b,
                Err(e) => return (Outcome::CallErr(i, crate::api::parse_err_kind(&e)), None),
            },
            Op::PartsNamespace(s) => {
                b.parts.namespace = SmallString::from(s.as_str());
                b
            },
            Op::PartsName(s) => {
                b.parts.name = SmallString::from(s.as_str());
                b
            },
            Op::PartsVersion(s) => {
                b.parts.version = SmallString::from(s.as_str());
                b
            },
            Op::PartsSubpath(s) => {
                b.parts.subpath = SmallString::from(s.as_str());
                b
            },
            Op::PartsType(s) => {
                let Some(t) = I::make_type(s) else { return (Outcome::BadType(s.clone()), None) };
                b.package_type = t;
                b
            },
            Op::PartsQualifierInsert(k, v) => {
                let _ = b.parts.qualifiers.insert(k.as_str(), v.as_str());
                b
            },
            Op::PartsQualifierRemove(k) => {
                let _ = b.parts.qualifiers.remove(k.as_str());
                b
            },
        };
    }
    match b.build() {
        Ok(p) => match text(&p) {
            Ok(t) => (Outcome::Built(observe(&p), t), Some(p)),
            // the value is still handed back: C04 judges it even if it cannot be printed
            Err(m) => (Outcome::Panicked(format!("to_string: {m}")), Some(p)),
        },
        Err(e) => (Outcome::BuildErr(I::err_kind(&e)), None),
    }
}

// ---------------------------------------------------------------------------------------------
// M-builder

#[derive(Clone, Debug, PartialEq, Eq)]
pub struct ExpectedOk {
    pub ty: String,
    pub ns_segments: Vec<String>,
    pub name: String,
    pub version: Option<String>,
    pub quals: Vec<(String, String)>,
    pub sub_segments: Vec<String>,
}

#[derive(Clone, Debug, PartialEq, Eq)]
pub enum Expect {
    Ok(ExpectedOk),
    /// build() must fail with one of these kinds (exactly this one when there is one)
    BuildErr(Vec<String>),
    CallErr(usize, String),
}

/// The typed checksum value as the model sees it: lower-cased algorithm -> hex text as stored.
pub fn model_checksum(entries: &[(String, CkVal)]) -> BTreeMap<String, String> {
    let mut m = BTreeMap::new();
    for (alg, v) in entries {
        let text = match v {
            CkVal::Bytes(b) => model::hex_lower(b),
            CkVal::Raw(s) => s.clone(),
        };
        m.insert(model::lower(alg), text);
    }
    m
}

/// Text form of a typed checksum, or None when some hex text is invalid.
pub fn model_checksum_text(m: &BTreeMap<String, String>) -> Option<String> {
    let mut entries: Vec<(&String, &String)> = m.iter().collect();
    entries.sort_by(|a, b| a.0.as_bytes().cmp(b.0.as_bytes()));
    let mut out = String::new();
    for (a, h) in entries {
        if h.len() % 2 != 0 || !h.bytes().all(|b| b.is_ascii_hexdigit()) {
            return None;
        }
        if !out.is_empty() {
            out.push(',');
        }
        out.push_str(a);
        out.push(':');
        out.push_str(&h.to_ascii_lowercase());
    }
    Some(out)
}

/// The builder's fields after all calls, before build().
#[derive(Clone, Debug, PartialEq, Eq)]
pub struct BuilderState {
    pub ty: String,
    pub ns: String,
    pub name: String,
    pub version: String,
    pub subpath: String,
    pub quals: BTreeMap<String, String>,
}

/// Last write wins per field; an invalid key / malformed typed checksum fails the call.
pub fn state(p: &Program) -> Result<BuilderState, (usize, String)> {
    let mut ty = p.ty.clone();
    let mut ns = String::new();
    let mut name = p.name.clone();
    let mut version = String::new();
    let mut subpath = String::new();
    let mut quals: BTreeMap<String, String> = BTreeMap::new();
    for (i, op) in p.ops.iter().enumerate() {
        match op {
            Op::Namespace(s) | Op::PartsNamespace(s) => ns = s.clone(),
            Op::NoNamespace => ns.clear(),
            Op::Name(s) | Op::PartsName(s) => name = s.clone(),
            Op::Version(s) | Op::PartsVersion(s) => version = s.clone(),
            Op::NoVersion => version.clear(),
            Op::Subpath(s) | Op::PartsSubpath(s) => subpath = s.clone(),
            Op::NoSubpath => subpath.clear(),
            Op::Type(s) | Op::PartsType(s) => ty = s.clone(),
            Op::Qualifier(k, v) => {
                if !is_valid_key(k) {
                    return Err((i, "InvalidQualifier".into()));
                }
                quals.insert(k.to_ascii_lowercase(), v.clone());
            },
            Op::PartsQualifierInsert(k, v) => {
                if is_valid_key(k) {
                    quals.insert(k.to_ascii_lowercase(), v.clone());
                }
            },
            Op::NoQualifier(k) | Op::PartsQualifierRemove(k) => {
                if is_valid_key(k) {
                    quals.remove(&k.to_ascii_lowercase());
                }
            },
            Op::NoQualifiers => quals.clear(),
            Op::RepoUrl(Some(u)) => {
                quals.insert("repository_url".into(), u.clone());
            },
            Op::RepoUrl(None) => {
                quals.remove("repository_url");
            },
            Op::Checksum(Some(entries)) => match model_checksum_text(&model_checksum(entries)) {
                Some(t) => {
                    quals.insert("checksum".into(), t);
                },
                None => return Err((i, "InvalidQualifier".into())),
            },
            Op::Checksum(None) => {
                quals.remove("checksum");
            },
        }
    }
    Ok(BuilderState { ty, ns, name, version, subpath, quals })
}

pub fn expect(p: &Program, typed: bool) -> Expect {
    let BuilderState { ty, ns, name, version, subpath, quals } = match state(p) {
        Ok(s) => s,
        Err((i, k)) => return Expect::CallErr(i, k),
    };
    let wrap = |k: &str| if typed { format!("Parse({k})") } else { k.to_string() };
    let mut reasons: Vec<String> = Vec::new();
    let ty_lower = ty.to_ascii_lowercase();
    if typed {
        if ty_lower == "maven" && model::ns_segments(&ns).is_empty() {
            reasons.push("Package::MissingRequiredField(namespace)".into());
        }
    } else if !is_valid_type(&ty) {
        reasons.push("InvalidPackageType".into());
    }
    let final_name = if typed { model::name_rule(&ty_lower, &name) } else { name.clone() };
    if final_name.is_empty() {
        reasons.push(wrap("MissingRequiredField(name)"));
    }
    let mut out_quals: Vec<(String, String)> = Vec::new();
    for (k, v) in &quals {
        if v.is_empty() {
            continue;
        }
        if k == "checksum" {
            match model::cksum_canonical(v) {
                Ok(c) => out_quals.push((k.clone(), c)),
                Err(_) => reasons.push(wrap("InvalidQualifier")),
            }
        } else {
            out_quals.push((k.clone(), v.clone()));
        }
    }
    if !reasons.is_empty() {
        return Expect::BuildErr(reasons);
    }
    Expect::Ok(ExpectedOk {
        ty: ty_lower,
        ns_segments: model::ns_segments(&ns).into_iter().map(str::to_string).collect(),
        name: final_name,
        version: if version.is_empty() { None } else { Some(version) },
        quals: out_quals,
        sub_segments: model::sub_segments(&subpath).into_iter().map(str::to_string).collect(),
    })
}

/// Compare an observation with the model's expectation (namespace / subpath through M-segs).
pub fn matches_expected(o: &Obs, e: &ExpectedOk) -> Result<(), String> {
    if o.ty != e.ty {
        return Err(format!("type {:?}, expected {:?}", o.ty, e.ty));
    }
    if o.name != e.name {
        return Err(format!("name {:?}, expected {:?}", o.name, e.name));
    }
    if o.version != e.version {
        return Err(format!("version {:?}, expected {:?}", o.version, e.version));
    }
    if o.quals != e.quals {
        return Err(format!("qualifiers {:?}, expected {:?}", o.quals, e.quals));
    }
    let ns: Vec<String> = model::opt_ns_segments(o.ns.as_deref()).into_iter().map(str::to_string).collect();
    if ns != e.ns_segments {
        return Err(format!("namespace {:?} (segments {ns:?}), expected segments {:?}", o.ns, e.ns_segments));
    }
    let sub: Vec<String> = model::opt_sub_segments(o.subpath.as_deref()).into_iter().map(str::to_string).collect();
    if sub != e.sub_segments {
        return Err(format!("subpath {:?} (segments {sub:?}), expected segments {:?}", o.subpath, e.sub_segments));
    }
    Ok(())
}

/// Outcome vs expectation.
pub fn check_outcome(out: &Outcome, exp: &Expect) -> Result<(), String> {
    match (out, exp) {
        (Outcome::Panicked(m), _) => Err(format!("the builder program panicked: {m}")),
        (Outcome::BadType(t), _) => Err(format!("bad replay case: cannot construct type {t:?}")),
        (Outcome::CallErr(i, k), Expect::CallErr(j, l)) => {
            if i == j && k == l {
                Ok(())
            } else {
                Err(format!("call {i} failed with {k}; the model expects call {j} to fail with {l}"))
            }
        },
        (Outcome::CallErr(i, k), e) => Err(format!("call {i} failed with {k}; the model expects {e:?}")),
        (o, Expect::CallErr(j, l)) => Err(format!("the model expects call {j} to fail with {l}; got {o:?}")),
        (Outcome::BuildErr(k), Expect::BuildErr(reasons)) => {
            if reasons.contains(k) {
                Ok(())
            } else {
                Err(format!("build() failed with {k}; applicable reasons are {reasons:?}"))
            }
        },
        (Outcome::BuildErr(k), Expect::Ok(e)) => Err(format!("build() failed with {k} but every condition for success holds; expected {e:?}")),
        (Outcome::Built(o, t), Expect::BuildErr(reasons)) => {
            Err(format!("build() succeeded ({t:?}, {o:?}) although it must fail with {reasons:?}"))
        },
        (Outcome::Built(o, t), Expect::Ok(e)) => matches_expected(o, e).map_err(|m| format!("built {t:?}: {m}")),
    }
}
