//! G-fault: one fault of one listed kind injected into an otherwise valid spelling.

use serde::{Deserialize, Serialize};

use crate::spell::{spell, Chooser, Spelled, SubPiece, Tuple};

pub const KINDS: &[&str] = &[
    "scheme",
    "no-type",
    "bad-type",
    "no-name",
    "item-without-eq",
    "bad-key",
    "duplicate-key",
    "invalid-utf8",
    "hidden-slash",
    "checksum",
];

pub const TYPED_KINDS: &[&str] = &["unknown-type", "maven-without-namespace"];

#[derive(Clone, Debug, Serialize, Deserialize)]
pub struct FaultCase {
    pub tuple: Tuple,
    pub choices: Vec<u8>,
    pub kind: String,
    /// choice stream for the position and the spelling of the fault
    pub fchoices: Vec<u8>,
}

pub struct Faulted {
    pub text: String,
    /// plain `ParseError` kind name, or a `Package::..` kind
    pub expected: &'static str,
    /// (component / variant) cell for the evidence
    pub cell: &'static str,
}

pub const BAD_UTF8: &[&str] = &[
    "%80", "%BF", "%bf", "%C3", "%c3", "%E2%82", "%e2%82", "%F0%9F%98", "%C0%AF", "%c0%af", "%E0%80%AF", "%ED%A0%80",
    "%ed%a0%80", "%F4%90%80%80", "%FF", "%ff", "%C3%28", "%F8%88%80%80%80", "%fE",
    // overlong forms of '/', '.', 'a' and of the largest 2- and 3-byte scalars in every length; the ends of the
    // surrogate range; lead bytes that never occur; a continuation byte replaced by ASCII
    "%F0%80%80%AF", "%f0%80%80%af", "%F0%80%80%AE", "%E0%80%AE", "%C0%AE", "%C1%A1", "%E0%81%A1", "%F0%80%81%A1", "%E0%9F%BF", "%F0%8F%BF%BF",
    "%ED%BF%BF", "%F5%80%80%80", "%F7%BF%BF%BF", "%E2%28%A1", "%E2%82%28", "%F0%28%8C%BC", "%F0%90%28%BC", "%F0%9F%98%28",
    // a valid multi-byte sequence torn apart by raw text (a decoder that carries state across the raw text would join it)
    "%E2%82x%AC", "%C3a%A9", "%F0%9F-%98%80", "%F0z%9F%98%80", "%E2%82.%AC", "%e2%82%41%ac", "%C3.%A9", "%F0%9F%98_%80",
];

fn insert_unit(units: &mut Vec<String>, ch: &mut Chooser<'_>, unit: &str) {
    let at = ch.next(units.len() + 1);
    units.insert(at, unit.to_string());
}

/// Apply the fault; `None` when the kind does not apply to this tuple (never for the base kinds).
pub fn inject(case: &FaultCase) -> Option<Faulted> {
    let t = &case.tuple;
    let mut sp: Spelled = spell(t, &case.choices);
    let mut ch = Chooser::new(&case.fchoices);
    match case.kind.as_str() {
        "scheme" => {
            let text = sp.assemble();
            let rest = text.strip_prefix("pkg:").unwrap();
            let (text, cell) = match ch.next(9) {
                0 => (rest.to_string(), "scheme:prefix-removed"),
                1 => (format!("pkg{rest}"), "scheme:colon-missing"),
                2 => (format!("pkg;{rest}"), "scheme:colon-replaced"),
                3 => (format!("http:{rest}"), "scheme:other-scheme"),
                4 => (format!("pk:{rest}"), "scheme:other-scheme"),
                5 => (format!("purl:{rest}"), "scheme:other-scheme"),
                6 => (format!(" {text}"), "scheme:char-before"),
                7 => (format!("/{text}"), "scheme:char-before"),
                _ => {
                    let c = [':', 'x', 'p', '\u{feff}', '%', '\n'][ch.next(6)];
                    (format!("{c}{text}"), "scheme:char-before")
                },
            };
            Some(Faulted { text, expected: "UnsupportedUrlScheme", cell })
        },
        "no-type" => {
            // the path part is empty or consists of '/' only; qualifiers and subpath are kept
            sp.ty.clear();
            sp.ns.clear();
            sp.ns_seps.clear();
            sp.name.clear();
            sp.version = None;
            let text = sp.assemble();
            // assemble wrote lead + "" + "/" : that is a path of '/' only; optionally none at all
            let text = if ch.flag() {
                let lead_len = sp.lead.len() + 1;
                format!("pkg:{}", &text[lead_len..])
            } else {
                text
            };
            Some(Faulted { text, expected: "MissingRequiredField(type)", cell: "no-type" })
        },
        "bad-type" => {
            const BAD: &[&str] = &["!", " ", "%41", "é", "@", ":", "_", "~", "*", "\u{212A}", "=", "&", ",", "ſ", "%2B"];
            let bad = BAD[ch.next(BAD.len())];
            let chars: Vec<char> = sp.ty.chars().collect();
            let at = ch.next(chars.len() + 1);
            let mut ty: String = chars[..at].iter().collect();
            ty.push_str(bad);
            ty.extend(chars[at..].iter());
            sp.ty = ty;
            let cell = if at == 0 {
                "bad-type:at-start"
            } else if at == chars.len() {
                "bad-type:at-end"
            } else {
                "bad-type:inside"
            };
            Some(Faulted { text: sp.assemble(), expected: "InvalidPackageType", cell })
        },
        "no-name" => {
            if ch.flag() {
                // name text emptied
                sp.name.clear();
                Some(Faulted { text: sp.assemble(), expected: "MissingRequiredField(name)", cell: "no-name:emptied" })
            } else {
                // no '/' after the type at all (the version could contain a raw '/', so it goes too)
                sp.ns.clear();
                sp.ns_seps.clear();
                sp.name.clear();
                sp.version = None;
                let text = sp.assemble();
                let cut = sp.lead.len() + sp.ty.len();
                let text = format!("{}{}", &text[..cut], &text[cut + 1..]);
                Some(Faulted { text, expected: "MissingRequiredField(name)", cell: "no-name:no-slash" })
            }
        },
        "item-without-eq" => {
            const ITEMS: &[&str] = &["k", "a.b", "%20", "a%3Db", "a%3db", "checksum", "K-9"];
            let item = ITEMS[ch.next(ITEMS.len())];
            let at = ch.next(sp.items.len() + 1);
            let mut text = sp.clone();
            // represent the item as key without '=': assemble() always writes '=', so splice by hand
            text.items.insert(at, (format!("\u{1}{item}"), Vec::new(), false));
            let s = text.assemble().replace(&format!("\u{1}{item}="), item);
            let cell = if sp.items.is_empty() {
                "item-without-eq:only-item"
            } else if at == 0 {
                "item-without-eq:first"
            } else if at == sp.items.len() {
                "item-without-eq:last"
            } else {
                "item-without-eq:middle"
            };
            Some(Faulted { text: s, expected: "InvalidQualifier", cell })
        },
        "bad-key" => {
            const KEYS: &[(&str, &str)] = &[
                ("", "bad-key:empty"),
                ("a b", "bad-key:space"),
                ("a@b", "bad-key:at"),
                ("a/b", "bad-key:slash"),
                ("a:b", "bad-key:colon"),
                ("a+b", "bad-key:plus"),
                ("a~b", "bad-key:tilde"),
                ("ké", "bad-key:non-ascii"),
                ("\u{212A}", "bad-key:non-ascii"),
                ("%6B", "bad-key:percent-encoded"),
                ("k%65y", "bad-key:percent-encoded"),
                ("a%20b", "bad-key:percent-encoded"),
                ("a,b", "bad-key:comma"),
                ("a*", "bad-key:star"),
            ];
            let (key, cell) = KEYS[ch.next(KEYS.len())];
            let value: Vec<String> = if ch.flag() { vec!["v".to_string()] } else { Vec::new() };
            let at = ch.next(sp.items.len() + 1);
            sp.items.insert(at, (key.to_string(), value, false));
            Some(Faulted { text: sp.assemble(), expected: "InvalidQualifier", cell })
        },
        "duplicate-key" => {
            // an existing key re-spelled in another letter case, both values non-empty
            let real: Vec<usize> = sp.items.iter().enumerate().filter(|(_, it)| it.2).map(|(i, _)| i).collect();
            let (key, cell) = if real.is_empty() {
                sp.items.push(("dup".to_string(), vec!["x".to_string()], true));
                ("dup".to_string(), "duplicate-key:added-pair")
            } else {
                let i = real[ch.next(real.len())];
                let cell = if sp.items[i].0.eq_ignore_ascii_case("checksum") {
                    "duplicate-key:checksum"
                } else {
                    "duplicate-key:existing"
                };
                (sp.items[i].0.clone(), cell)
            };
            let mut other: String = key
                .chars()
                .map(|c| {
                    if ch.flag() {
                        if c.is_ascii_lowercase() {
                            c.to_ascii_uppercase()
                        } else {
                            c.to_ascii_lowercase()
                        }
                    } else {
                        c
                    }
                })
                .collect();
            let same_spelling = other == key;
            if same_spelling && ch.flag() {
                // force a case difference on the first letter
                let mut cs: Vec<char> = other.chars().collect();
                if let Some(p) = cs.iter().position(|c| c.is_ascii_alphabetic()) {
                    cs[p] = if cs[p].is_ascii_lowercase() { cs[p].to_ascii_uppercase() } else { cs[p].to_ascii_lowercase() };
                }
                other = cs.into_iter().collect();
            }
            let value = if key.eq_ignore_ascii_case("checksum") { "aa:00" } else { "y" };
            let cell = match (cell, other != key) {
                ("duplicate-key:existing", true) => "duplicate-key:existing-other-case",
                ("duplicate-key:existing", false) => "duplicate-key:existing-same-case",
                ("duplicate-key:checksum", true) => "duplicate-key:checksum-other-case",
                (c, _) => c,
            };
            let at = ch.next(sp.items.len() + 1);
            sp.items.insert(at, (other, vec![value.to_string()], true));
            Some(Faulted { text: sp.assemble(), expected: "InvalidQualifier", cell })
        },
        "invalid-utf8" => {
            let pat = BAD_UTF8[ch.next(BAD_UTF8.len())];
            // candidate components
            let mut targets: Vec<&'static str> = vec!["name"];
            if sp.version.is_some() {
                targets.push("version");
            }
            if !sp.ns.is_empty() {
                targets.push("namespace");
            }
            if sp.items.iter().any(|i| i.2) {
                targets.push("qualifier-value");
            }
            if sp.sub.is_some() {
                targets.push("subpath");
            }
            let target = targets[ch.next(targets.len())];
            let cell = match target {
                "name" => {
                    insert_unit(&mut sp.name, &mut ch, pat);
                    "invalid-utf8:name"
                },
                "version" => {
                    insert_unit(sp.version.as_mut().unwrap(), &mut ch, pat);
                    "invalid-utf8:version"
                },
                "namespace" => {
                    let i = ch.next(sp.ns.len());
                    insert_unit(&mut sp.ns[i], &mut ch, pat);
                    if i == 0 {
                        "invalid-utf8:namespace-first-segment"
                    } else {
                        "invalid-utf8:namespace-later-segment"
                    }
                },
                "qualifier-value" => {
                    let real: Vec<usize> = sp.items.iter().enumerate().filter(|(_, it)| it.2).map(|(i, _)| i).collect();
                    let i = real[ch.next(real.len())];
                    insert_unit(&mut sp.items[i].1, &mut ch, pat);
                    "invalid-utf8:qualifier-value"
                },
                _ => {
                    let sub = sp.sub.as_mut().unwrap();
                    let real: Vec<usize> =
                        sub.iter().enumerate().filter(|(_, p)| matches!(p, SubPiece::Real(_))).map(|(i, _)| i).collect();
                    let i = real[ch.next(real.len())];
                    if let SubPiece::Real(units) = &mut sub[i] {
                        insert_unit(units, &mut ch, pat);
                    }
                    if i == real[0] {
                        "invalid-utf8:subpath-first-segment"
                    } else {
                        "invalid-utf8:subpath-later-segment"
                    }
                },
            };
            Some(Faulted { text: sp.assemble(), expected: "InvalidEscape", cell })
        },
        "hidden-slash" => {
            let pat = ["%2F", "%2f"][ch.next(2)];
            let in_sub = sp.sub.is_some() && (sp.ns.is_empty() || ch.flag());
            let whole_segment = ch.flag();
            let cell;
            if in_sub {
                let sub = sp.sub.as_mut().unwrap();
                if whole_segment {
                    let at = ch.next(sub.len() + 1);
                    sub.insert(at, SubPiece::Real(vec![pat.to_string()]));
                    cell = "hidden-slash:subpath-whole-segment";
                } else {
                    let real: Vec<usize> =
                        sub.iter().enumerate().filter(|(_, p)| matches!(p, SubPiece::Real(_))).map(|(i, _)| i).collect();
                    let i = real[ch.next(real.len())];
                    if let SubPiece::Real(units) = &mut sub[i] {
                        insert_unit(units, &mut ch, pat);
                    }
                    cell = "hidden-slash:subpath-inside-segment";
                }
            } else if sp.ns.is_empty() || whole_segment {
                // a new namespace segment consisting of the escape alone
                if sp.ns.is_empty() {
                    sp.ns.push(vec![pat.to_string()]);
                    sp.ns_seps = vec![String::new(), "/".to_string()];
                } else {
                    let at = ch.next(sp.ns.len() + 1);
                    sp.ns.insert(at, vec![pat.to_string()]);
                    // separators: keep the first one slash-free, all later ones start with '/'
                    let sep_at = at + 1;
                    sp.ns_seps.insert(sep_at, "/".to_string());
                }
                cell = "hidden-slash:namespace-whole-segment";
            } else {
                let i = ch.next(sp.ns.len());
                insert_unit(&mut sp.ns[i], &mut ch, pat);
                cell = "hidden-slash:namespace-inside-segment";
            }
            Some(Faulted { text: sp.assemble(), expected: "InvalidEscape", cell })
        },
        "checksum" => {
            const BAD: &[(&str, &str)] = &[
                ("sha1", "checksum:no-colon"),
                ("a:0", "checksum:odd-digits"),
                ("a:000", "checksum:odd-digits"),
                ("a:zz", "checksum:non-hex"),
                ("a:0g", "checksum:non-hex"),
                ("a:00,A:11", "checksum:duplicate-algorithm"),
                ("sha1:00,b:11,SHA1:22", "checksum:duplicate-algorithm"),
                ("a:00,,b:11", "checksum:empty-entry"),
                ("a:00,", "checksum:empty-entry"),
                (",a:00", "checksum:empty-entry"),
                ("a:00,b", "checksum:no-colon"),
                ("a:00%2Cb:1", "checksum:odd-digits"),
                ("a%3A0x", "checksum:non-hex"),
                ("é:00,É:11", "checksum:duplicate-algorithm"),
                ("a:0,b:00", "checksum:odd-digits"),
                ("a:zz,b:00", "checksum:non-hex"),
                ("b:00,a:z0", "checksum:non-hex"),
                ("a:00,b,c:11", "checksum:no-colon"),
                ("m:00,a:1,z:22", "checksum:odd-digits"),
                ("a:0,b:1", "checksum:odd-digits"),
                ("md5:0,sha1:abc", "checksum:odd-digits"),
                ("a:0,b:abc,c:00,d:1", "checksum:odd-digits"),
                ("sha3-256:00,sha3:0", "checksum:odd-digits"),
            ];
            let (value, cell) = BAD[ch.next(BAD.len())];
            sp.items.retain(|it| !it.0.eq_ignore_ascii_case("checksum"));
            let key = ["checksum", "Checksum", "CHECKSUM"][ch.next(3)];
            let at = ch.next(sp.items.len() + 1);
            sp.items.insert(at, (key.to_string(), vec![value.to_string()], true));
            Some(Faulted { text: sp.assemble(), expected: "InvalidQualifier", cell })
        },
        "unknown-type" => {
            const OTHER: &[&str] = &[
                "deb", "rpm", "docker", "github", "generic", "cargox", "carg", "np", "pypi2", "go", "pip", "mvn", "nuget.", "gem-",
                "c+", "x", "Composer", "CRAN", "npm1", "mavenn",
            ];
            let ty = OTHER[ch.next(OTHER.len())];
            sp.ty = ty.to_string();
            Some(Faulted { text: sp.assemble(), expected: "Package::UnsupportedType", cell: "unknown-type" })
        },
        "maven-without-namespace" => {
            if !t.ty.eq_ignore_ascii_case("maven") {
                return None;
            }
            sp.ns.clear();
            sp.ns_seps.clear();
            // a raw '@' in the namespace needed nothing else; removing the namespace is safe
            let cell = if ch.flag() {
                // leave an extra slash where the namespace was
                sp.name.insert(0, "/".to_string());
                "maven-without-namespace:extra-slashes"
            } else {
                "maven-without-namespace:plain"
            };
            Some(Faulted { text: sp.assemble(), expected: "Package::MissingRequiredField(namespace)", cell })
        },
        _ => None,
    }
}
