//! Byte-driven decoders of API programs for the `fz_api` fuzz target.
//!
//! proptest's pass-through RNG cannot be used for this: every `prop_oneof!` splits the remaining
//! bytes in half for its lazily generated neighbours, so deep strategies exhaust any input and
//! then spin in rand's rejection sampling on a constant stream (observed). These decoders read
//! the fuzzer's bytes through the same monotone `Chooser` as the spelling generator; an exhausted
//! stream yields 0 everywhere, so decoding always terminates, small inputs give small programs,
//! and a local mutation of the bytes is a local mutation of the program.

use crate::buildprog::{CkVal, Op, Program, HANDPICKED, KEY_UNIVERSE};
use crate::chars::{ALNUM, BOUNDARY, CASEY, CONTROLS, KNOWN_TYPES, PUNCT, SEPARATORS, TITLECASE};
use crate::props::c11::{Pred, QCase, QOp};
use crate::props::c12::{COp, CkCase};
use crate::shape::{Action, ShapeSpec};
use crate::spell::Chooser;

pub struct Dec<'a> {
    pub ch: Chooser<'a>,
}

const ALGS: &[&str] = &["sha1", "SHA256", "md5", "Sha512", "a", "B", "a:b", ":", "", "é", "É", "ǅ", "ǆ", "sha-1", "x y", "İ", "Σ", "ς"];
const TYPES: &[&str] = &["t", "T", "npm", "NuGet", "a.b-c+D1", "", "!", "a b", "%41", "é", "9p", "c++"];
const CK_TEXTS: &[&str] = &["sha1:00", "B:ff,a:00", "SHA1:AB", "a:0", "a", "a:zz", "a:00,A:11", "a:00,,b:11", ":", "a:", "é:00", "x:y:00", "a:0,b:00", "b:00,a:z"];

impl<'a> Dec<'a> {
    pub fn new(data: &'a [u8]) -> Self {
        Dec { ch: Chooser::new(data) }
    }

    fn n(&mut self, k: usize) -> usize {
        self.ch.next(k)
    }

    fn pick<T: Copy>(&mut self, xs: &[T]) -> T {
        xs[self.n(xs.len())]
    }

    pub fn ch_(&mut self) -> char {
        match self.n(8) {
            0..=2 => self.pick(ALNUM),
            3 | 4 => self.pick(PUNCT),
            5 => self.pick(SEPARATORS),
            6 => match self.n(4) {
                0 => self.pick(CONTROLS),
                1 => self.pick(BOUNDARY),
                2 => self.pick(TITLECASE),
                _ => self.pick(CASEY),
            },
            _ => {
                let v = (self.n(256) << 8 | self.n(256)) as u32 | ((self.n(17) as u32) << 16);
                char::from_u32(v).unwrap_or('\u{fffd}')
            },
        }
    }

    pub fn text(&mut self) -> String {
        if self.n(3) == 1 {
            return self.pick(HANDPICKED).to_string();
        }
        let len = self.n(9);
        (0..len).map(|_| self.ch_()).collect()
    }

    pub fn key(&mut self) -> String {
        if self.n(4) == 3 {
            self.text()
        } else {
            self.pick(KEY_UNIVERSE).to_string()
        }
    }

    fn alg(&mut self) -> String {
        if self.n(4) == 3 {
            self.text().replace(',', ";")
        } else {
            self.pick(ALGS).to_string()
        }
    }

    fn bytes(&mut self) -> Vec<u8> {
        let len = self.n(6);
        (0..len).map(|_| self.n(256) as u8).collect()
    }

    fn ckval(&mut self) -> CkVal {
        match self.n(6) {
            0 => CkVal::Raw(self.pick(&["00", "AB", "ab", "aBcD", "", "0", "zz", "0G", " 00", "é"][..]).to_string()),
            _ => CkVal::Bytes(self.bytes()),
        }
    }

    fn ck_entries(&mut self) -> Vec<(String, CkVal)> {
        let len = self.n(5);
        (0..len).map(|_| (self.alg(), self.ckval())).collect()
    }

    fn ty(&mut self, typed: bool) -> String {
        if typed {
            self.pick(KNOWN_TYPES).to_string()
        } else if self.n(4) == 0 {
            self.pick(KNOWN_TYPES).to_string()
        } else {
            self.pick(TYPES).to_string()
        }
    }

    fn op(&mut self, typed: bool) -> Op {
        match self.n(21) {
            0 => Op::Namespace(self.text()),
            1 => Op::NoNamespace,
            2 => Op::Name(self.text()),
            3 => Op::Version(self.text()),
            4 => Op::NoVersion,
            5 => Op::Subpath(self.text()),
            6 => Op::NoSubpath,
            7 => Op::Type(self.ty(typed)),
            8 | 9 => Op::Qualifier(self.key(), self.text()),
            10 => Op::Qualifier("checksum".into(), self.pick(CK_TEXTS).to_string()),
            11 => Op::NoQualifier(self.key()),
            12 => Op::NoQualifiers,
            13 => Op::RepoUrl(if self.n(4) == 0 { None } else { Some(self.text()) }),
            14 => Op::Checksum(if self.n(5) == 0 { None } else { Some(self.ck_entries()) }),
            15 => Op::PartsNamespace(self.text()),
            16 => Op::PartsName(self.text()),
            17 => Op::PartsVersion(self.text()),
            18 => Op::PartsSubpath(self.text()),
            19 => Op::PartsQualifierInsert(self.key(), self.text()),
            _ => Op::PartsQualifierRemove(self.key()),
        }
    }

    pub fn program(&mut self, typed: bool) -> Program {
        let ty = self.ty(typed);
        let name = self.text();
        let len = self.n(11);
        Program { ty, name, ops: (0..len).map(|_| self.op(typed)).collect() }
    }

    fn pred(&mut self) -> Pred {
        match self.n(5) {
            0 => Pred::KeepAll,
            1 => Pred::DropAll,
            2 => Pred::KeepValueNonEmpty,
            3 => Pred::KeepKeyLess(self.key()),
            _ => Pred::DropKeyEq(self.key()),
        }
    }

    fn pattern(&mut self) -> Vec<bool> {
        let len = self.n(7);
        (0..len).map(|_| self.ch.flag()).collect()
    }

    fn qop(&mut self) -> QOp {
        match self.n(37) {
            0..=3 => QOp::Insert(self.key(), self.text()),
            4 => QOp::InsertOwnedKey(self.key(), self.text()),
            5 => QOp::EntryClassify(self.key()),
            6 => QOp::EntryOrInsert(self.key(), self.text()),
            7 => QOp::EntryOrInsertWith(self.key(), self.text()),
            8 => QOp::EntryAndModify(self.key(), self.text()),
            9 => QOp::EntryAndModifyOrInsert(self.key(), self.text(), self.text()),
            10 => QOp::OccGet(self.key()),
            11 => QOp::OccGetMut(self.key(), self.text()),
            12 => QOp::OccIntoMut(self.key(), self.text()),
            13 => QOp::OccInsert(self.key(), self.text()),
            14 => QOp::OccRemove(self.key()),
            15 => QOp::OccRemoveEntry(self.key()),
            16 => QOp::VacInsert(self.key(), self.text()),
            17 => QOp::Get(self.key()),
            18 => QOp::GetMut(self.key(), self.text()),
            19 => QOp::ContainsKey(self.key()),
            20 => QOp::Index(self.key()),
            21 => QOp::IndexMut(self.key(), self.text()),
            22 | 23 => QOp::Remove(self.key()),
            24 => QOp::Retain(self.pred()),
            25 => QOp::RetainMut(self.pred(), self.text()),
            26 => QOp::Clear,
            27 => QOp::Iter(self.pattern()),
            28 => QOp::IterMut(self.pattern(), self.text()),
            29 => QOp::IntoIterRef,
            30 => QOp::Reserve(self.n(65) as u8),
            31 => {
                let len = self.n(5);
                QOp::TryFromIter((0..len).map(|_| (self.key(), self.text())).collect())
            },
            32 => QOp::RepoInsert(self.text()),
            33 => QOp::ChecksumTryInsert(self.ck_entries()),
            34 => QOp::ChecksumTryGet,
            35 => QOp::KeyCompare(self.key()),
            _ => match self.n(4) {
                0 => QOp::KeyViews,
                1 => QOp::CloneEq,
                2 => QOp::RepoGet,
                _ => {
                    if self.ch.flag() {
                        QOp::RepoRemove
                    } else {
                        if self.ch.flag() {
                            QOp::UserTyped(self.n(4) as u8, self.text())
                        } else {
                            QOp::IterMethod(self.n(8) as u8, self.n(5) as u8, self.ch.flag())
                        }
                    }
                },
            },
        }
    }

    pub fn qcase(&mut self) -> QCase {
        let ni = self.n(5);
        let init = (0..ni).map(|_| (self.key(), self.text())).collect();
        let no = self.n(31);
        let ops = (0..no).map(|_| self.qop()).collect();
        let shuffle = (0..16).map(|_| self.n(256) as u8).collect();
        QCase { init, ops, shuffle }
    }

    pub fn ckcase(&mut self) -> CkCase {
        let no = self.n(9);
        let ops = (0..no)
            .map(|_| match self.n(6) {
                0 | 1 | 2 => COp::Insert(self.alg(), self.bytes()),
                3 => COp::InsertRawUpper(self.alg(), self.bytes()),
                4 => COp::InsertRawLower(self.alg(), self.bytes()),
                _ => COp::Remove(self.alg()),
            })
            .collect();
        let orders = (0..48).map(|_| self.n(256) as u8).collect();
        let spelling = (0..64).map(|_| self.n(256) as u8).collect();
        CkCase { ops, orders, spelling }
    }

    pub fn spec(&mut self) -> ShapeSpec {
        let conv_fail = if self.n(10) == 9 { Some(self.n(4) as u8) } else { None };
        let len = self.n(6);
        let hook = (0..len)
            .map(|_| match self.n(12) {
                0 => Action::Fail(self.n(4) as u8),
                1 => Action::ClearName,
                2 => Action::SetName(self.text()),
                3 => Action::LowerName,
                4 => Action::SetNamespace(self.text()),
                5 => Action::SetVersion(self.text()),
                6 => Action::SetSubpath(self.text()),
                7 => Action::InsertQualifier(self.key(), self.text()),
                8 => Action::InsertQualifier(self.key(), String::new()),
                9 => Action::InsertChecksum(self.pick(&["checksum", "Checksum", "CHECKSUM"][..]).to_string(), self.pick(CK_TEXTS).to_string()),
                10 => Action::RemoveQualifier(self.key()),
                _ => {
                    if self.ch.flag() {
                        Action::ClearQualifiers
                    } else {
                        if self.ch.flag() {
                            Action::IndexSet(self.pick(&["checksum", "Checksum", "a", "k"][..]).to_string(), self.pick(CK_TEXTS).to_string())
                        } else {
                            Action::Reenter(self.pick(&["pkg:cargo/foo@1.0", "pkg:t/%80", "x", "pkg:pypi/A_b?k=v#s"][..]).to_string())
                        }
                    }
                },
            })
            .collect();
        ShapeSpec { conv_fail, hook }
    }
}
