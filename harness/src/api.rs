//! Thin, panic-guarded wrappers around the library, uniform over the type parameter.

use std::borrow::Cow;
use std::fmt::Debug;
use std::hash::Hash;
use std::str::FromStr;

use purl::{GenericPurl, GenericPurlBuilder, PackageError, PackageType, ParseError, PurlField, PurlShape};

use crate::engine::guard;
use crate::model::Obs;

pub type SmallString = purl::SmallString;

pub fn field_name(f: &PurlField) -> &'static str {
    match f {
        PurlField::PackageType => "type",
        PurlField::Namespace => "namespace",
        PurlField::Name => "name",
        PurlField::Version => "version",
        PurlField::Subpath => "subpath",
    }
}

/// Structural name of a `ParseError`.
pub fn parse_err_kind(e: &ParseError) -> String {
    match e {
        ParseError::UnsupportedUrlScheme => "UnsupportedUrlScheme".into(),
        ParseError::MissingRequiredField(f) => format!("MissingRequiredField({})", field_name(f)),
        ParseError::InvalidPackageType => "InvalidPackageType".into(),
        ParseError::InvalidQualifier => "InvalidQualifier".into(),
        ParseError::InvalidEscape => "InvalidEscape".into(),
    }
}

/// Structural name of a `PackageError`: `Parse(<inner>)`, `Package::MissingRequiredField(..)`,
/// `Package::UnsupportedType`.
pub fn package_err_kind(e: &PackageError) -> String {
    match e {
        PackageError::MissingRequiredField(f) => format!("Package::MissingRequiredField({})", field_name(f)),
        PackageError::Parse(p) => format!("Parse({})", parse_err_kind(p)),
        PackageError::UnsupportedType => "Package::UnsupportedType".into(),
    }
}

/// One built-in instantiation of the PURL type.
pub trait Inst: 'static {
    type T: PurlShape<Error = Self::E> + Clone + Eq + Hash + Ord + Debug;
    type E: Debug + std::fmt::Display + From<ParseError>;
    const NAME: &'static str;
    /// typed instantiation (PackageType)?
    const TYPED: bool;
    fn err_kind(e: &Self::E) -> String;
    /// The error kind this instantiation reports for a plain `ParseError` kind.
    fn wrap(kind: &str) -> String {
        if Self::TYPED {
            format!("Parse({kind})")
        } else {
            kind.to_string()
        }
    }
    fn make_type(s: &str) -> Option<Self::T>;
}

pub trait ParseInst: Inst {
    fn from_str(s: &str) -> Result<GenericPurl<Self::T>, Self::E>;
}

pub struct IStr;
pub struct ISmall;
pub struct ITyped;
pub struct ICowB;
pub struct ICowO;

impl Inst for IStr {
    type E = ParseError;
    type T = String;

    const NAME: &'static str = "String";
    const TYPED: bool = false;

    fn err_kind(e: &ParseError) -> String {
        parse_err_kind(e)
    }

    fn make_type(s: &str) -> Option<String> {
        Some(s.to_string())
    }
}
impl ParseInst for IStr {
    fn from_str(s: &str) -> Result<GenericPurl<String>, ParseError> {
        GenericPurl::<String>::from_str(s)
    }
}

impl Inst for ISmall {
    type E = ParseError;
    type T = SmallString;

    const NAME: &'static str = "SmallString";
    const TYPED: bool = false;

    fn err_kind(e: &ParseError) -> String {
        parse_err_kind(e)
    }

    fn make_type(s: &str) -> Option<SmallString> {
        Some(SmallString::from(s))
    }
}
impl ParseInst for ISmall {
    fn from_str(s: &str) -> Result<GenericPurl<SmallString>, ParseError> {
        GenericPurl::<SmallString>::from_str(s)
    }
}

impl Inst for ITyped {
    type E = PackageError;
    type T = PackageType;

    const NAME: &'static str = "PackageType";
    const TYPED: bool = true;

    fn err_kind(e: &PackageError) -> String {
        package_err_kind(e)
    }

    fn make_type(s: &str) -> Option<PackageType> {
        PackageType::from_str(s).ok()
    }
}
impl ParseInst for ITyped {
    fn from_str(s: &str) -> Result<GenericPurl<PackageType>, PackageError> {
        GenericPurl::<PackageType>::from_str(s)
    }
}

impl Inst for ICowB {
    type E = ParseError;
    type T = Cow<'static, str>;

    const NAME: &'static str = "Cow::Borrowed";
    const TYPED: bool = false;

    fn err_kind(e: &ParseError) -> String {
        parse_err_kind(e)
    }

    fn make_type(s: &str) -> Option<Cow<'static, str>> {
        // The borrowed branch needs a 'static str; the leak is bounded by the interner below.
        Some(Cow::Borrowed(intern(s)))
    }
}

impl Inst for ICowO {
    type E = ParseError;
    type T = Cow<'static, str>;

    const NAME: &'static str = "Cow::Owned";
    const TYPED: bool = false;

    fn err_kind(e: &ParseError) -> String {
        parse_err_kind(e)
    }

    fn make_type(s: &str) -> Option<Cow<'static, str>> {
        Some(Cow::Owned(s.to_string()))
    }
}

/// Leak-once interner for `Cow::Borrowed` type strings (per thread, bounded by distinct strings).
pub fn intern(s: &str) -> &'static str {
    use std::cell::RefCell;
    use std::collections::HashSet;
    thread_local! {
        static SET: RefCell<HashSet<&'static str>> = RefCell::new(HashSet::new());
    }
    SET.with(|set| {
        let mut set = set.borrow_mut();
        if let Some(x) = set.get(s) {
            return *x;
        }
        if set.len() > 200_000 {
            // keep the leak bounded: forget the index (memory already leaked stays leaked)
            set.clear();
        }
        // the borrowed text is a sub-slice of a longer allocation, at an offset (0..8) that depends on the text:
        // code that looks at a string a machine word at a time meets every alignment of its first byte
        let offset = (crate::engine::str_hash(s) % 8) as usize;
        let padded = format!("{}{s}##", "#".repeat(offset));
        let whole: &'static str = Box::leak(padded.into_boxed_str());
        let leaked: &'static str = &whole[offset..offset + s.len()];
        set.insert(leaked);
        leaked
    })
}

/// Accessors of a PURL. `package_type()` of a user shape may be anything; nothing here panics.
pub fn observe<T: PurlShape>(p: &GenericPurl<T>) -> Obs {
    Obs {
        ty: p.package_type().package_type().into_owned(),
        ns: p.namespace().map(str::to_string),
        name: p.name().to_string(),
        version: p.version().map(str::to_string),
        quals: p.qualifiers().iter().map(|(k, v)| (k.as_str().to_string(), v.to_string())).collect(),
        subpath: p.subpath().map(str::to_string),
    }
}

/// Outcome of a parse: Ok(purl) / Err(kind); a panic is `Err(Panic(..))` of the outer result.
pub fn parse<I: ParseInst>(s: &str) -> Result<Result<GenericPurl<I::T>, String>, String> {
    guard(|| I::from_str(s).map_err(|e| I::err_kind(&e)))
}

/// `to_string()` guarded.
pub fn text<T: PurlShape>(p: &GenericPurl<T>) -> Result<String, String> {
    guard(|| p.to_string())
}

/// `build()` guarded.
pub fn build<I: Inst>(b: GenericPurlBuilder<I::T>) -> Result<Result<GenericPurl<I::T>, String>, String> {
    guard(|| b.build().map_err(|e| I::err_kind(&e)))
}

/// `Display` invoked with format flags (width, fill, alignment, precision, sign, alternate, zero).
/// Two behaviours are right: ignoring the flags (the canonical string, which is what the pinned code
/// does) and treating the canonical string as a whole the way `str` does (padded / truncated as one
/// unit). Anything else - a flag applied to one part of the output - corrupts the string.
pub fn check_flags<T: std::fmt::Display>(v: &T, canonical: &str, what: &str) -> Result<(), String> {
    macro_rules! one {
        ($spec:literal) => {{
            let got = guard(|| format!($spec, v)).map_err(|m| format!("{what}: formatting with {:?} panicked: {m}", $spec))?;
            let whole = format!($spec, canonical);
            if got != canonical && got != whole {
                return Err(format!("{what}: formatted with {:?} it prints {got:?}; the canonical string is {canonical:?}", $spec));
            }
        }};
    }
    one!("{:8}");
    one!("{:>40}");
    one!("{:<60.5}");
    one!("{:.3}");
    one!("{:^7}");
    one!("{:08}");
    one!("{:+}");
    one!("{:#}");
    one!("{:*<30}");
    one!("{:1.0}");
    Ok(())
}

pub fn known_type_index(name_lower: &str) -> Option<usize> {
    crate::chars::KNOWN_TYPES.iter().position(|t| *t == name_lower)
}
