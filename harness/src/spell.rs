//! G-tuple and G-spell: component tuples over the domain C02 states, and their legal spellings.

use proptest::prelude::*;
use proptest::sample::select;
use serde::{Deserialize, Serialize};

use crate::chars::{gkey, gtext, gtext1, gtype, KNOWN_TYPES};
use crate::model::{self, Obs};

#[derive(Clone, Debug, Serialize, Deserialize, PartialEq, Eq, Hash)]
pub struct Tuple {
    pub ty: String,
    pub ns: Vec<String>,
    pub name: String,
    pub version: Option<String>,
    /// keys `[A-Za-z][A-Za-z0-9._-]*`, distinct ignoring case, never `checksum`; values non-empty
    pub quals: Vec<(String, String)>,
    /// (algorithm without ',', bytes); algorithms distinct after lower-casing
    pub checksum: Vec<(String, Vec<u8>)>,
    pub subpath: Vec<String>,
}

fn no_slash(s: String) -> String {
    s.chars().map(|c| if c == '/' { '|' } else { c }).collect()
}

pub fn gsegment() -> BoxedStrategy<String> {
    gtext1().prop_map(no_slash).boxed()
}

pub fn gsub_segment() -> BoxedStrategy<String> {
    gtext1()
        .prop_map(|s| {
            let s = no_slash(s);
            if s == "." || s == ".." {
                format!("{s}x")
            } else {
                s
            }
        })
        .boxed()
}

pub fn galgorithm() -> BoxedStrategy<String> {
    prop_oneof![
        3 => select(&["sha1", "SHA256", "md5", "Sha512", "a", "B", "a:b", ":", "", "é", "É", "ǅ", "sha-1", "x y"][..]).prop_map(str::to_string),
        // names of which one is a proper prefix of another, continued by a character below ':'
        2 => select(&["sha3", "sha3-256", "SHA3-512", "a1", "a-", "a.b", "a+", "a ", "sha", "sha2"][..]).prop_map(str::to_string),
        // names that share a long prefix (16, 23, 32 bytes and more), differ in length, and are not prefixes of one another
        2 => (select(&["blake2b-512-keyed", "sha3-512-truncated-to-256-bits", "x", "algorithm-with-a-very-long-common-prefix-0123456789"][..]), select(&["_b", "-a1", "-a", "_", "0", "-00", ".z", "+", "_bb", "-a10"][..]))
            .prop_map(|(stem, tail)| format!("{stem}{tail}")),
        // pairs that are different algorithms (they differ after lower-casing) but coincide under upper-casing or case
        // folding: a canonical order must still tell them apart
        2 => select(&["a\u{3c2}", "a\u{3c3}", "stra\u{df}e", "strasse", "\u{17f}ha", "sha", "\u{fb01}x", "fix", "\u{3c2}", "\u{3c3}"][..]).prop_map(str::to_string),
        // long names (beyond the inline capacity of the small-string type) in scripts with case
        1 => select(&["ΑΒΓΔΕΖΗΘΙΚΛΜΣ", "αβγδεζηθικλμσ", "ΟΔΟΣ", "ÆB", "ÆSHA", "blake2b-512-personalised-XYZ", "SHAKE256-LONG-DIGEST-NAME-0001"][..]).prop_map(str::to_string),
        2 => gtext(0).prop_map(|s| s.chars().map(|c| if c == ',' { ';' } else { c }).collect::<String>()),
    ]
    .boxed()
}

/// A count at or next to a number of the source under test (2..=max).
pub fn gcount(max: usize) -> BoxedStrategy<usize> {
    crate::chars::gsize(max).prop_map(|n| n.max(2)).boxed()
}

fn dedup_quals(q: Vec<(String, String)>) -> Vec<(String, String)> {
    let mut out: Vec<(String, String)> = Vec::new();
    for (k, v) in q {
        let mut k2 = k.clone();
        let mut n = 0;
        while out.iter().any(|(o, _)| o.eq_ignore_ascii_case(&k2)) || k2.eq_ignore_ascii_case("checksum") {
            n += 1;
            k2 = format!("{k}{n}");
        }
        out.push((k2, v));
    }
    out
}

fn dedup_checksum(c: Vec<(String, Vec<u8>)>) -> Vec<(String, Vec<u8>)> {
    let mut out: Vec<(String, Vec<u8>)> = Vec::new();
    for (a, b) in c {
        let la = model::lower(&a);
        if !out.iter().any(|(o, _)| model::lower(o) == la) {
            out.push((a, b));
        }
    }
    out
}

/// `typed`: the type is one of the seven known names (Maven gets a namespace).
pub fn gtuple(typed: bool) -> BoxedStrategy<Tuple> {
    let ty = if typed { select(KNOWN_TYPES).prop_map(str::to_string).boxed() } else { gtype() };
    let t = (
        ty,
        prop_oneof![12 => proptest::collection::vec(gsegment(), 0..=3), 1 => proptest::collection::vec(gsegment(), 4..=8)],
        gtext1(),
        proptest::option::weighted(0.6, gtext1()),
        prop_oneof![
            24 => proptest::collection::vec((gkey(), gtext1()), 0..=3),
            2 => proptest::collection::vec((gkey(), gtext1()), 4..=12),
            // more than 16 / 32 qualifiers
            1 => (prop_oneof![2 => (17usize..=40).boxed(), 1 => gcount(70)], gtext1(), proptest::collection::vec(0usize..6, 72)).prop_map(|(n, v, heads)| {
                // heads that differ by '_' / '.' / a letter (in either case) right after a shared first letter
                const HEADS: &[&str] = &["q", "Q", "a_", "ab", "aB", "a."];
                (0..n).map(|i| (format!("{}{i:02}", HEADS[heads[i]]), v.clone())).collect::<Vec<_>>()
            }),
        ],
        prop_oneof![
            3 => Just(Vec::new()),
            4 => proptest::collection::vec((galgorithm(), proptest::collection::vec(any::<u8>(), 0..=4)), 1..=3),
            1 => proptest::collection::vec((galgorithm(), proptest::collection::vec(any::<u8>(), 0..=32)), 1..=7),
            // long digests (more than 128 / 256 hex digits) and more than 64 algorithms
            1 => prop_oneof![
                (galgorithm(), proptest::collection::vec(any::<u8>(), 120..=300)).prop_map(|e| vec![e]),
                (prop_oneof![2 => (65usize..=80).boxed(), 1 => gcount(90)], any::<u8>()).prop_map(|(n, b)| (0..n).rev().map(|i| (format!("h{i:02}"), vec![b, i as u8])).collect::<Vec<_>>()),
            ],
        ],
        proptest::collection::vec(gsub_segment(), 0..=3),
    )
        .prop_map(move |(ty, mut ns, name, version, quals, checksum, subpath)| {
            if typed && ty == "maven" && ns.is_empty() {
                ns.push("g".to_string());
            }
            Tuple { ty, ns, name, version, quals: dedup_quals(quals), checksum: dedup_checksum(checksum), subpath }
        })
        .boxed();
    // now and then two components are *related*: the same text in two places, or one a prefix of the other
    (t, 0u8..48)
        .prop_map(|(mut t, rel)| {
            let no_slash = |s: &str| s.replace('/', "|");
            match rel {
                0 => {
                    if let Some(s) = t.ns.first().cloned() {
                        t.name = s;
                    }
                },
                1 => t.version = Some(t.name.clone()),
                2 => {
                    if let Some(q) = t.quals.first_mut() {
                        q.1 = t.name.clone();
                    }
                },
                3 => {
                    if !t.ns.is_empty() {
                        t.subpath = t.ns.iter().map(|s| if s == "." || s == ".." { format!("{s}x") } else { s.clone() }).collect();
                    }
                },
                4 => {
                    if let (Some(v), Some(q)) = (t.version.clone(), t.quals.first_mut()) {
                        q.1 = v;
                    }
                },
                5 => {
                    if let Some(s) = t.ns.last().cloned() {
                        t.name = format!("{s}:{}", t.name);
                    }
                },
                6 => {
                    let n = no_slash(&t.name);
                    t.ns = vec![n];
                },
                7 => {
                    if let Some(q) = t.quals.first().cloned() {
                        t.subpath = vec![no_slash(&q.1)].into_iter().filter(|s| !s.is_empty() && s != "." && s != "..").collect();
                    }
                },
                // a component *built by joining* others: a subpath that repeats the whole package path and goes on
                // (Go import paths), a namespace that ends in the name, a name that is the last subpath segment
                8 | 9 => {
                    let ok = |s: &String| !s.is_empty() && s != "." && s != "..";
                    let mut sub: Vec<String> = t.ns.iter().cloned().filter(ok).collect();
                    let n = no_slash(&t.name);
                    if ok(&n) {
                        sub.push(n);
                    }
                    if rel == 8 {
                        sub.extend(t.subpath.iter().cloned());
                    }
                    t.subpath = sub;
                },
                10 => {
                    let n = no_slash(&t.name);
                    if !n.is_empty() {
                        t.ns.push(n);
                    }
                },
                11 => {
                    if let Some(s) = t.subpath.last().cloned() {
                        t.name = s;
                    }
                },
                _ => {},
            }
            t
        })
        .boxed()
}

impl Tuple {
    /// What the accessors must report (`typed`: apply the type's own name rule).
    pub fn expected(&self, typed: bool) -> Obs {
        let ty = self.ty.to_ascii_lowercase();
        let name = if typed { model::name_rule(&ty, &self.name) } else { self.name.clone() };
        let mut quals: Vec<(String, String)> =
            self.quals.iter().map(|(k, v)| (k.to_ascii_lowercase(), v.clone())).collect();
        if !self.checksum.is_empty() {
            let entries: Vec<(String, String)> =
                self.checksum.iter().map(|(a, b)| (a.clone(), model::hex_lower(b))).collect();
            quals.push(("checksum".to_string(), model::cksum_text(&entries)));
        }
        quals.sort();
        Obs {
            ty,
            ns: if self.ns.is_empty() { None } else { Some(self.ns.join("/")) },
            name,
            version: self.version.clone(),
            quals,
            subpath: if self.subpath.is_empty() { None } else { Some(self.subpath.join("/")) },
        }
    }

    /// Is this tuple inside the domain C02 states? (used when tuples are mutated, and on replay)
    pub fn in_domain(&self) -> bool {
        let ty_ok = {
            let b = self.ty.as_bytes();
            !b.is_empty() && b[0].is_ascii_alphabetic() && crate::chars::is_valid_type(&self.ty)
        };
        let keys_ok = self.quals.iter().enumerate().all(|(i, (k, v))| {
            crate::chars::is_valid_key(k)
                && k.as_bytes()[0].is_ascii_alphabetic()
                && !k.eq_ignore_ascii_case("checksum")
                && !v.is_empty()
                && self.quals[..i].iter().all(|(o, _)| !o.eq_ignore_ascii_case(k))
        });
        let ck_ok = self.checksum.iter().enumerate().all(|(i, (a, _))| {
            !a.contains(',') && self.checksum[..i].iter().all(|(o, _)| model::lower(o) != model::lower(a))
        });
        ty_ok
            && keys_ok
            && ck_ok
            && !self.name.is_empty()
            && self.version.as_ref().map(|v| !v.is_empty()).unwrap_or(true)
            && self.ns.iter().all(|s| !s.is_empty() && !s.contains('/'))
            && self.subpath.iter().all(|s| !s.is_empty() && !s.contains('/') && s != "." && s != "..")
    }
}

// ---------------------------------------------------------------------------------------------

/// Deterministic decoder of a generated choice stream; an exhausted stream yields 0
/// (= raw / as written / no extra slash), which is what shrinking drives towards.
pub struct Chooser<'a> {
    data: &'a [u8],
    pos: usize,
}

impl<'a> Chooser<'a> {
    pub fn new(data: &'a [u8]) -> Self {
        Chooser { data, pos: 0 }
    }

    fn byte(&mut self) -> u8 {
        let b = self.data.get(self.pos).copied().unwrap_or(0);
        self.pos += 1;
        b
    }

    /// A value in 0..n, monotone in the underlying byte(s).
    pub fn next(&mut self, n: usize) -> usize {
        if n <= 1 {
            return 0;
        }
        if n <= 256 {
            (self.byte() as usize * n) >> 8
        } else {
            let v = ((self.byte() as usize) << 8) | self.byte() as usize;
            (v * n) >> 16
        }
    }

    pub fn flag(&mut self) -> bool {
        self.next(2) == 1
    }

    /// true with probability ~ num/den (false when exhausted)
    pub fn chance(&mut self, num: usize, den: usize) -> bool {
        self.next(den) >= den - num
    }
}

pub fn gchoices() -> BoxedStrategy<Vec<u8>> {
    prop_oneof![
        1 => Just(Vec::new()),
        6 => proptest::collection::vec(any::<u8>(), 0..=200),
        1 => proptest::collection::vec(any::<u8>(), 200..=600),
    ]
    .boxed()
}

#[derive(Clone, Copy, Debug, PartialEq, Eq)]
pub enum CPos {
    Ns,
    Name,
    Version,
    QVal,
    Sub,
}

#[derive(Clone, Copy, Debug)]
pub struct Follow {
    pub has_version: bool,
    pub has_query: bool,
    pub has_sub: bool,
}

/// May `c` stand unescaped in component `pos`, given which separators follow? (DESIGN.md 2.1)
pub fn raw_ok(c: char, pos: CPos, f: Follow) -> bool {
    match c {
        '%' => false,
        '#' => pos != CPos::Sub && f.has_sub,
        '?' => match pos {
            CPos::Sub => true,
            CPos::QVal => false,
            _ => f.has_query,
        },
        '@' => match pos {
            CPos::Ns | CPos::Name => f.has_version,
            CPos::Version => false,
            CPos::QVal | CPos::Sub => true,
        },
        '/' => matches!(pos, CPos::Version | CPos::QVal),
        '&' => pos != CPos::QVal,
        _ => true,
    }
}

#[derive(Clone, Debug, PartialEq, Eq)]
pub enum SubPiece {
    Real(Vec<String>),
    /// "", "." or ".."
    Filler(&'static str),
}

#[derive(Clone, Debug)]
pub struct Spelled {
    pub lead: String,
    pub ty: String,
    pub ns: Vec<Vec<String>>,
    pub ns_seps: Vec<String>,
    pub name: Vec<String>,
    pub version: Option<Vec<String>>,
    /// (key as spelled, value units, is a real (non-empty) item)
    pub items: Vec<(String, Vec<String>, bool)>,
    pub sub: Option<Vec<SubPiece>>,
    pub freedoms: Vec<&'static str>,
}

impl Spelled {
    pub fn assemble(&self) -> String {
        let mut s = String::new();
        s.push_str(&self.lead);
        s.push_str(&self.ty);
        s.push('/');
        if !self.ns.is_empty() {
            for (i, seg) in self.ns.iter().enumerate() {
                s.push_str(&self.ns_seps[i]);
                for u in seg {
                    s.push_str(u);
                }
            }
            s.push_str(&self.ns_seps[self.ns.len()]);
        }
        for u in &self.name {
            s.push_str(u);
        }
        if let Some(v) = &self.version {
            s.push('@');
            for u in v {
                s.push_str(u);
            }
        }
        if !self.items.is_empty() {
            let mut sep = '?';
            for (k, v, _) in &self.items {
                s.push(sep);
                s.push_str(k);
                s.push('=');
                for u in v {
                    s.push_str(u);
                }
                sep = '&';
            }
        }
        if let Some(sub) = &self.sub {
            s.push('#');
            for (i, p) in sub.iter().enumerate() {
                if i > 0 {
                    s.push('/');
                }
                match p {
                    SubPiece::Real(units) => {
                        for u in units {
                            s.push_str(u);
                        }
                    },
                    SubPiece::Filler(f) => s.push_str(f),
                }
            }
        }
        s
    }

    fn used(&mut self, f: &'static str) {
        if !self.freedoms.contains(&f) {
            self.freedoms.push(f);
        }
    }
}

fn flip_ascii_case(s: &str, ch: &mut Chooser<'_>) -> (String, bool) {
    let mut changed = false;
    let out = s
        .chars()
        .map(|c| {
            if c.is_ascii_alphabetic() && ch.chance(1, 3) {
                changed = true;
                if c.is_ascii_lowercase() {
                    c.to_ascii_uppercase()
                } else {
                    c.to_ascii_lowercase()
                }
            } else {
                c
            }
        })
        .collect();
    (out, changed)
}

/// Another letter case of an algorithm name that lower-cases (char-wise) to the same text.
fn vary_algorithm_case(s: &str, ch: &mut Chooser<'_>) -> (String, bool) {
    let mut changed = false;
    let mut out = String::new();
    for c in s.chars() {
        if ch.chance(1, 3) {
            // an upper-case form whose lower-casing gives back exactly lower(c)
            let mut up = c.to_uppercase();
            if let (Some(u), None) = (up.next(), up.next()) {
                if u != c && u.to_lowercase().eq(c.to_lowercase()) {
                    out.push(u);
                    changed = true;
                    continue;
                }
            }
            if c.is_ascii_uppercase() {
                out.push(c.to_ascii_lowercase());
                changed = true;
                continue;
            }
        }
        out.push(c);
    }
    (out, changed)
}

fn encode_char(c: char, pos: CPos, f: Follow, ch: &mut Chooser<'_>, sp: &mut Spelled) -> String {
    let choice = ch.next(8); // 0..=4 raw if allowed, 5 upper hex, 6 lower hex, 7 mixed hex
    let raw_allowed = raw_ok(c, pos, f);
    if choice <= 4 && raw_allowed {
        if !c.is_ascii() {
            sp.used("raw-utf8");
        }
        match c {
            '@' if matches!(pos, CPos::Ns | CPos::Name) => sp.used("raw-@-left-of-separator"),
            '?' if matches!(pos, CPos::Ns | CPos::Name | CPos::Version) => sp.used("raw-?-left-of-separator"),
            '#' => sp.used("raw-#-left-of-separator"),
            '/' if pos == CPos::Version => sp.used("raw-/-in-version"),
            _ => {},
        }
        return c.to_string();
    }
    let mut buf = [0u8; 4];
    let bytes = c.encode_utf8(&mut buf).as_bytes();
    let mut out = String::new();
    let mut lower_used = false;
    for b in bytes {
        out.push('%');
        for nib in [b >> 4, b & 15] {
            let lower = match choice {
                6 => true,
                7 => ch.flag(),
                _ => false,
            };
            let d = if lower { b"0123456789abcdef"[nib as usize] } else { b"0123456789ABCDEF"[nib as usize] };
            if lower && nib >= 10 {
                lower_used = true;
            }
            out.push(d as char);
        }
    }
    sp.used("percent-escape");
    if lower_used {
        sp.used("lower-case-hex-escape");
    }
    if !model::must_escape(bytes[0], match pos {
        CPos::Ns => model::Pos::Namespace,
        CPos::Name => model::Pos::Name,
        CPos::Version => model::Pos::Version,
        CPos::QVal => model::Pos::QualValue,
        CPos::Sub => model::Pos::Subpath,
    }) {
        sp.used("escape-of-unreserved-char");
    }
    out
}

fn encode_str(s: &str, pos: CPos, f: Follow, ch: &mut Chooser<'_>, sp: &mut Spelled) -> Vec<String> {
    s.chars().map(|c| encode_char(c, pos, f, ch, sp)).collect()
}

fn extra_slashes(ch: &mut Chooser<'_>) -> &'static str {
    match ch.next(8) {
        6 => "/",
        7 => "//",
        _ => "",
    }
}

/// Spell a tuple using only the freedoms C02 lists.
pub fn spell(t: &Tuple, choices: &[u8]) -> Spelled {
    let mut ch = Chooser::new(choices);
    let mut sp = Spelled {
        lead: String::from("pkg:"),
        ty: String::new(),
        ns: Vec::new(),
        ns_seps: Vec::new(),
        name: Vec::new(),
        version: None,
        items: Vec::new(),
        sub: None,
        freedoms: Vec::new(),
    };
    // how many empty-valued items with fresh keys are interleaved
    let n_empty = match ch.next(8) {
        6 => 1,
        7 => 2,
        _ => 0,
    };
    let f = Follow {
        has_version: t.version.is_some(),
        has_query: !t.quals.is_empty() || !t.checksum.is_empty() || n_empty > 0,
        has_sub: !t.subpath.is_empty(),
    };

    let lead = extra_slashes(&mut ch);
    if !lead.is_empty() {
        sp.used("extra-slash-after-scheme");
    }
    sp.lead.push_str(lead);

    let (ty, changed) = flip_ascii_case(&t.ty, &mut ch);
    if changed {
        sp.used("type-letter-case");
    }
    if t.ty.bytes().any(|b| !b.is_ascii_alphabetic()) {
        sp.used("type-with-digit-or-.+-");
    }
    sp.ty = ty;

    if !t.ns.is_empty() {
        for (i, seg) in t.ns.iter().enumerate() {
            let extra = extra_slashes(&mut ch);
            if !extra.is_empty() {
                sp.used("extra-slash-around-namespace");
            }
            sp.ns_seps.push(if i == 0 { extra.to_string() } else { format!("/{extra}") });
            let units = encode_str(seg, CPos::Ns, f, &mut ch, &mut sp);
            sp.ns.push(units);
        }
        let extra = extra_slashes(&mut ch);
        if !extra.is_empty() {
            sp.used("extra-slash-around-namespace");
        }
        sp.ns_seps.push(format!("/{extra}"));
    }

    sp.name = encode_str(&t.name, CPos::Name, f, &mut ch, &mut sp);
    if let Some(v) = &t.version {
        sp.version = Some(encode_str(v, CPos::Version, f, &mut ch, &mut sp));
    }

    // qualifier items
    let mut items: Vec<(String, Vec<String>, bool)> = Vec::new();
    for (k, v) in &t.quals {
        let (ks, changed) = flip_ascii_case(k, &mut ch);
        if changed {
            sp.used("key-letter-case");
        }
        if k.bytes().any(|b| !b.is_ascii_alphabetic()) {
            sp.used("key-with-digit-or-._-");
        }
        let units = encode_str(v, CPos::QVal, f, &mut ch, &mut sp);
        items.push((ks, units, true));
    }
    if !t.checksum.is_empty() {
        let (ks, changed) = flip_ascii_case("checksum", &mut ch);
        if changed {
            sp.used("key-letter-case");
        }
        // entries in a generated order, algorithm and hex digits in a generated case
        let mut order: Vec<usize> = (0..t.checksum.len()).collect();
        let mut shuffled = false;
        for i in (1..order.len()).rev() {
            let j = ch.next(i + 1);
            // exhausted stream: j = 0 would still permute; keep identity unless a choice byte says otherwise
            if ch.pos <= ch.data.len() && j != i {
                order.swap(i, j);
                shuffled = true;
            }
        }
        if shuffled {
            sp.used("checksum-entries-reordered");
        }
        if t.checksum.len() > 1 {
            sp.used("multi-algorithm-checksum");
        }
        let mut text = String::new();
        for (n, idx) in order.iter().enumerate() {
            let (alg, bytes) = &t.checksum[*idx];
            if n > 0 {
                text.push(',');
            }
            let (a, changed) = vary_algorithm_case(alg, &mut ch);
            if changed {
                sp.used("algorithm-letter-case");
            }
            text.push_str(&a);
            text.push(':');
            for b in bytes {
                for nib in [b >> 4, b & 15] {
                    let upper = ch.chance(1, 3);
                    if upper && nib >= 10 {
                        sp.used("hex-digit-case");
                    }
                    let d = if upper { b"0123456789ABCDEF"[nib as usize] } else { b"0123456789abcdef"[nib as usize] };
                    text.push(d as char);
                }
            }
        }
        let units = encode_str(&text, CPos::QVal, f, &mut ch, &mut sp);
        items.push((ks, units, true));
    }
    for i in 0..n_empty {
        // fresh keys start with 'q', which no generated key does
        let (ks, _) = flip_ascii_case(&format!("q{i}"), &mut ch);
        items.push((ks, Vec::new(), false));
        sp.used("empty-valued-qualifier-interleaved");
    }
    let mut shuffled = false;
    for i in (1..items.len()).rev() {
        let j = ch.next(i + 1);
        if ch.pos <= ch.data.len() && j != i {
            items.swap(i, j);
            shuffled = true;
        }
    }
    if shuffled {
        sp.used("qualifiers-reordered");
    }
    sp.items = items;

    if !t.subpath.is_empty() {
        let mut pieces: Vec<SubPiece> = Vec::new();
        let filler = |ch: &mut Chooser<'_>, sp: &mut Spelled, pieces: &mut Vec<SubPiece>| {
            for _ in 0..2 {
                match ch.next(16) {
                    13 => {
                        pieces.push(SubPiece::Filler(""));
                        sp.used("extra-slash-around-subpath");
                    },
                    14 => {
                        pieces.push(SubPiece::Filler("."));
                        sp.used("raw-dot-subpath-piece");
                    },
                    15 => {
                        pieces.push(SubPiece::Filler(".."));
                        sp.used("raw-dotdot-subpath-piece");
                    },
                    _ => {},
                }
            }
        };
        for seg in &t.subpath {
            filler(&mut ch, &mut sp, &mut pieces);
            let units = encode_str(seg, CPos::Sub, f, &mut ch, &mut sp);
            pieces.push(SubPiece::Real(units));
        }
        filler(&mut ch, &mut sp, &mut pieces);
        sp.sub = Some(pieces);
    }
    sp
}

/// The canonical (plainest) spelling: empty choice stream.
pub fn spell_plain(t: &Tuple) -> String {
    spell(t, &[]).assemble()
}
