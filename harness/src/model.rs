//! Reference models. Nothing here calls into `purl` or into the `percent-encoding` crate.

use serde::{Deserialize, Serialize};

use crate::chars::{is_valid_key, is_valid_type};

/// What a PURL reports through its accessors.
#[derive(Clone, Debug, PartialEq, Eq, Hash, PartialOrd, Ord, Serialize, Deserialize, Default)]
pub struct Obs {
    pub ty: String,
    pub ns: Option<String>,
    pub name: String,
    pub version: Option<String>,
    pub quals: Vec<(String, String)>,
    pub subpath: Option<String>,
}

// ---------------------------------------------------------------------------------------------
// M-pct: strict percent decoder + UTF-8

#[derive(Debug, Clone, PartialEq, Eq)]
pub enum PctError {
    BareOrTruncatedPercent,
    InvalidUtf8,
}

fn hexval(b: u8) -> Option<u8> {
    match b {
        b'0'..=b'9' => Some(b - b'0'),
        b'a'..=b'f' => Some(b - b'a' + 10),
        b'A'..=b'F' => Some(b - b'A' + 10),
        _ => None,
    }
}

pub fn pct_decode_bytes(s: &str) -> Result<Vec<u8>, PctError> {
    let b = s.as_bytes();
    let mut out = Vec::with_capacity(b.len());
    let mut i = 0;
    while i < b.len() {
        if b[i] == b'%' {
            let (Some(h), Some(l)) = (b.get(i + 1).copied().and_then(hexval), b.get(i + 2).copied().and_then(hexval)) else {
                return Err(PctError::BareOrTruncatedPercent);
            };
            out.push(h * 16 + l);
            i += 3;
        } else {
            out.push(b[i]);
            i += 1;
        }
    }
    Ok(out)
}

pub fn pct_decode(s: &str) -> Result<String, PctError> {
    String::from_utf8(pct_decode_bytes(s)?).map_err(|_| PctError::InvalidUtf8)
}

/// True if every '%' is followed by two hex digits.
pub fn pct_well_formed(s: &str) -> bool {
    pct_decode_bytes(s).is_ok()
}

// ---------------------------------------------------------------------------------------------
// M-render: canonical string from accessors

#[derive(Clone, Copy, Debug, PartialEq, Eq)]
pub enum Pos {
    Namespace,
    Name,
    Version,
    QualValue,
    QualKey,
    Subpath,
}

/// The escape table of C03, as explicit byte predicates.
pub fn must_escape(b: u8, pos: Pos) -> bool {
    let common = b < 0x20
        || b == 0x7f
        || b == b' '
        || b >= 0x80
        || b == b'"'
        || b == b'<'
        || b == b'>'
        || b == b'%'
        || b == b'@'
        || b == b'?'
        || b == b'#';
    if common {
        return true;
    }
    match pos {
        Pos::Namespace | Pos::Version => b == b'`' || b == b'{' || b == b'}',
        Pos::Name => b == b'`' || b == b'{' || b == b'}' || b == b'/',
        Pos::QualValue | Pos::QualKey => b == b'+' || b == b'&',
        Pos::Subpath => b == b'`',
    }
}

pub fn render_component(s: &str, pos: Pos, out: &mut String) {
    const HEX: &[u8; 16] = b"0123456789ABCDEF";
    for &b in s.as_bytes() {
        if must_escape(b, pos) {
            out.push('%');
            out.push(HEX[(b >> 4) as usize] as char);
            out.push(HEX[(b & 15) as usize] as char);
        } else {
            out.push(b as char);
        }
    }
}

/// `pkg:` type `/` [ns `/`] name [`@` version] [`?` k=v (`&` k=v)*] [`#` subpath], qualifiers in
/// ascending key order (the caller passes them in the order the accessor iterates; the renderer
/// sorts them itself so that an unsorted accessor is detected).
pub fn render(o: &Obs) -> String {
    let mut s = String::from("pkg:");
    s.push_str(&o.ty);
    s.push('/');
    if let Some(ns) = &o.ns {
        render_component(ns, Pos::Namespace, &mut s);
        s.push('/');
    }
    render_component(&o.name, Pos::Name, &mut s);
    if let Some(v) = &o.version {
        s.push('@');
        render_component(v, Pos::Version, &mut s);
    }
    let mut q: Vec<&(String, String)> = o.quals.iter().collect();
    q.sort_by(|a, b| a.0.as_bytes().cmp(b.0.as_bytes()));
    let mut sep = '?';
    for (k, v) in q {
        s.push(sep);
        render_component(k, Pos::QualKey, &mut s);
        s.push('=');
        render_component(v, Pos::QualValue, &mut s);
        sep = '&';
    }
    if let Some(sp) = &o.subpath {
        s.push('#');
        render_component(sp, Pos::Subpath, &mut s);
    }
    s
}

// ---------------------------------------------------------------------------------------------
// M-lower / M-pypi

/// Char-wise Unicode lower-casing (NOT `str::to_lowercase`, which has the final-sigma rule).
pub fn lower(s: &str) -> String {
    s.chars().flat_map(|c| c.to_lowercase()).collect()
}

/// Lower-case, then collapse every maximal run of '-', '_', '.' into a single '-'.
pub fn pypi(s: &str) -> String {
    let mut out = String::new();
    let mut in_run = false;
    for c in lower(s).chars() {
        if c == '-' || c == '_' || c == '.' {
            if !in_run {
                out.push('-');
            }
            in_run = true;
        } else {
            in_run = false;
            out.push(c);
        }
    }
    out
}

/// The name rule of a known type.
pub fn name_rule(ty_lower: &str, name: &str) -> String {
    match ty_lower {
        "pypi" => pypi(name),
        "nuget" => lower(name),
        _ => name.to_string(),
    }
}

// ---------------------------------------------------------------------------------------------
// M-segs

pub fn ns_segments(ns: &str) -> Vec<&str> {
    ns.split('/').filter(|p| !p.is_empty()).collect()
}

pub fn sub_segments(sp: &str) -> Vec<&str> {
    sp.split('/').filter(|p| !p.is_empty() && *p != "." && *p != "..").collect()
}

pub fn opt_ns_segments(ns: Option<&str>) -> Vec<&str> {
    ns.map(ns_segments).unwrap_or_default()
}

pub fn opt_sub_segments(sp: Option<&str>) -> Vec<&str> {
    sp.map(sub_segments).unwrap_or_default()
}

// ---------------------------------------------------------------------------------------------
// M-cksum

#[derive(Debug, Clone, PartialEq, Eq)]
pub enum CkError {
    NoColon,
    BadHex,
    Duplicate,
}

/// Parse `alg:hex(,alg:hex)*`; returns entries sorted by lower-cased algorithm, hex lower-cased.
pub fn cksum_parse(text: &str) -> Result<Vec<(String, String)>, CkError> {
    let mut entries: Vec<(String, String)> = Vec::new();
    for item in text.split(',') {
        let Some(i) = item.rfind(':') else { return Err(CkError::NoColon) };
        let alg = lower(&item[..i]);
        let hex = &item[i + 1..];
        if hex.len() % 2 != 0 || !hex.bytes().all(|b| b.is_ascii_hexdigit()) {
            return Err(CkError::BadHex);
        }
        if entries.iter().any(|(a, _)| *a == alg) {
            return Err(CkError::Duplicate);
        }
        entries.push((alg, hex.to_ascii_lowercase()));
    }
    entries.sort_by(|a, b| a.0.as_bytes().cmp(b.0.as_bytes()));
    Ok(entries)
}

pub fn cksum_text(entries: &[(String, String)]) -> String {
    let mut e: Vec<(String, String)> = entries.iter().map(|(a, h)| (lower(a), h.to_ascii_lowercase())).collect();
    e.sort_by(|a, b| a.0.as_bytes().cmp(b.0.as_bytes()));
    e.iter().map(|(a, h)| format!("{a}:{h}")).collect::<Vec<_>>().join(",")
}

pub fn cksum_canonical(text: &str) -> Result<String, CkError> {
    cksum_parse(text).map(|e| cksum_text(&e))
}

pub fn hex_lower(bytes: &[u8]) -> String {
    let mut s = String::with_capacity(bytes.len() * 2);
    for b in bytes {
        s.push_str(&format!("{b:02x}"));
    }
    s
}

// ---------------------------------------------------------------------------------------------
// M-strict: left-to-right recogniser for an unambiguous sub-language.

#[derive(Debug, Clone, PartialEq, Eq)]
pub enum Strict {
    Accept(Obs),
    Reject(&'static str),
    Unknown(&'static str),
}

/// See DESIGN.md 3.2. Precedence: global Unknown > Reject > local Unknown > Accept.
pub fn strict(s: &str) -> Strict {
    let Some(rest) = s.strip_prefix("pkg:") else { return Strict::Reject("scheme") };
    let rest = rest.trim_start_matches('/');

    // global ambiguity: more than one '#'; more than one '?' left of it; more than one '@' in the
    // path part; a '%' that does not start an escape.
    if rest.bytes().filter(|b| *b == b'#').count() > 1 {
        return Strict::Unknown("several '#'");
    }
    let (main, frag) = match rest.find('#') {
        Some(i) => (&rest[..i], Some(&rest[i + 1..])),
        None => (rest, None),
    };
    if main.bytes().filter(|b| *b == b'?').count() > 1 {
        return Strict::Unknown("several '?'");
    }
    let (path, query) = match main.find('?') {
        Some(i) => (&main[..i], Some(&main[i + 1..])),
        None => (main, None),
    };
    if path.bytes().filter(|b| *b == b'@').count() > 1 {
        return Strict::Unknown("several '@'");
    }
    if !pct_well_formed(rest) {
        return Strict::Unknown("bare '%'");
    }

    let mut local_unknown: Option<&'static str> = None;
    let mut reject: Option<&'static str> = None;
    let mut obs = Obs::default();

    // ---- path
    if path.is_empty() {
        return Strict::Reject("no type");
    }
    let Some(slash) = path.find('/') else { return Strict::Reject("no name") };
    let ty = &path[..slash];
    let after = &path[slash + 1..];
    if !is_valid_type(ty) {
        reject.get_or_insert("bad type");
    } else if ty.as_bytes()[0].is_ascii_digit() {
        local_unknown.get_or_insert("type with leading digit");
    }
    obs.ty = ty.to_ascii_lowercase();
    let (left, version) = match after.find('@') {
        Some(i) => (&after[..i], Some(&after[i + 1..])),
        None => (after, None),
    };
    if let Some(v) = version {
        if v.is_empty() {
            local_unknown.get_or_insert("empty version after '@'");
        } else {
            match pct_decode(v) {
                Ok(v) => obs.version = Some(v),
                Err(_) => {
                    reject.get_or_insert("invalid utf-8 in version");
                },
            }
        }
    }
    let mut pieces: Vec<&str> = left.split('/').collect();
    let name = pieces.pop().unwrap_or("");
    if name.is_empty() {
        reject.get_or_insert("no name");
    } else {
        match pct_decode(name) {
            Ok(n) => obs.name = n,
            Err(_) => {
                reject.get_or_insert("invalid utf-8 in name");
            },
        }
    }
    let mut segs: Vec<String> = Vec::new();
    for p in pieces {
        if p.is_empty() {
            continue;
        }
        match pct_decode(p) {
            Ok(d) => {
                if d.contains('/') {
                    reject.get_or_insert("hidden '/' in namespace");
                }
                segs.push(d);
            },
            Err(_) => {
                reject.get_or_insert("invalid utf-8 in namespace");
            },
        }
    }
    if !segs.is_empty() {
        obs.ns = Some(segs.join("/"));
    }

    // ---- query
    if let Some(q) = query {
        let mut seen: Vec<(String, bool)> = Vec::new(); // (lower key, value empty?)
        for item in q.split('&') {
            if item.is_empty() {
                local_unknown.get_or_insert("empty qualifier item");
                continue;
            }
            let Some(eq) = item.find('=') else {
                reject.get_or_insert("item without '='");
                continue;
            };
            let key = &item[..eq];
            let raw_value = &item[eq + 1..];
            if !is_valid_key(key) {
                reject.get_or_insert("bad key");
                continue;
            }
            let lk = key.to_ascii_lowercase();
            let value = match pct_decode(raw_value) {
                Ok(v) => v,
                Err(_) => {
                    reject.get_or_insert("invalid utf-8 in qualifier value");
                    continue;
                },
            };
            let empty = value.is_empty();
            for (k, e) in &seen {
                if *k == lk {
                    if !*e && !empty {
                        reject.get_or_insert("duplicate key");
                    } else {
                        local_unknown.get_or_insert("duplicate key with an empty value");
                    }
                }
            }
            seen.push((lk.clone(), empty));
            if empty {
                continue;
            }
            if lk == "checksum" {
                match cksum_canonical(&value) {
                    Ok(c) => obs.quals.push((lk, c)),
                    Err(_) => {
                        reject.get_or_insert("malformed checksum");
                    },
                }
            } else {
                obs.quals.push((lk, value));
            }
        }
        obs.quals.sort();
    }

    // ---- fragment
    if let Some(f) = frag {
        let mut segs: Vec<String> = Vec::new();
        for p in f.split('/') {
            if p.is_empty() || p == "." || p == ".." {
                continue;
            }
            match pct_decode(p) {
                Ok(d) => {
                    if d.contains('/') {
                        reject.get_or_insert("hidden '/' in subpath");
                    } else if d == "." || d == ".." {
                        local_unknown.get_or_insert("escaped dot segment");
                    }
                    segs.push(d);
                },
                Err(_) => {
                    reject.get_or_insert("invalid utf-8 in subpath");
                },
            }
        }
        if segs.is_empty() {
            local_unknown.get_or_insert("subpath without significant piece");
        } else {
            obs.subpath = Some(segs.join("/"));
        }
    }

    if let Some(r) = reject {
        return Strict::Reject(r);
    }
    if let Some(u) = local_unknown {
        return Strict::Unknown(u);
    }
    Strict::Accept(obs)
}

#[cfg(test)]
mod tests {
    use super::*;

    #[test]
    fn strict_basics() {
        assert!(matches!(strict("pkg:t/n"), Strict::Accept(_)));
        assert!(matches!(strict("t/n"), Strict::Reject("scheme")));
        assert!(matches!(strict("pkg:t"), Strict::Reject("no name")));
        assert!(matches!(strict("pkg:t/n?"), Strict::Unknown(_)));
        assert!(matches!(strict("pkg:t/n?k"), Strict::Reject(_)));
        assert!(matches!(strict("pkg:t/%2F/n"), Strict::Reject(_)));
        let Strict::Accept(o) = strict("pkg:/T/a//b/n@1/2?K=x&checksum=B:00,a:FF#./s/../t") else { panic!() };
        assert_eq!(o.ty, "t");
        assert_eq!(o.ns.as_deref(), Some("a/b"));
        assert_eq!(o.version.as_deref(), Some("1/2"));
        assert_eq!(o.quals, vec![("checksum".into(), "a:ff,b:00".into()), ("k".into(), "x".into())]);
        assert_eq!(o.subpath.as_deref(), Some("s/t"));
        assert_eq!(render(&o), "pkg:t/a/b/n@1/2?checksum=a:ff,b:00&k=x#s/t");
    }

    #[test]
    fn pypi_rule() {
        assert_eq!(pypi("A_.-b..C"), "a-b-c");
        assert_eq!(lower("ǅΣ"), "ǆσ");
    }
}
