//! C18 - combined names split and join at the ecosystem separator.

use std::str::FromStr;

use proptest::prelude::*;
use proptest::sample::select;
use purl::{PackageType, Purl};
use serde::{Deserialize, Serialize};
use serde_json::json;

use crate::api::{observe, parse, ITyped};
use crate::chars::{gtext, KNOWN_TYPES};
use crate::engine::{guard, Enumerated, Random, Section, Stats};
use crate::props::Prop;
use crate::spell::{gchoices, gtuple, spell, Tuple};

#[derive(Clone, Debug, Serialize, Deserialize)]
pub struct Combined {
    pub ty: String,
    pub text: String,
}

/// The reference split.
fn reference(ty: &str, s: &str) -> (String, String) {
    match ty {
        "golang" | "npm" => match s.rfind('/') {
            Some(i) => (s[..i].to_string(), s[i + 1..].to_string()),
            None => (String::new(), s.to_string()),
        },
        "maven" => match s.find(':') {
            Some(i) => (s[..i].to_string(), s[i + 1..].to_string()),
            None => (String::new(), s.to_string()),
        },
        _ => (String::new(), s.to_string()),
    }
}

fn o_split(c: &Combined, st: &mut Stats) -> Result<(), String> {
    let t = PackageType::from_str(&c.ty).map_err(|_| "bad replay case: type".to_string())?;
    let b = guard(|| Purl::builder_with_combined_name(t, c.text.as_str())).map_err(|m| format!("builder_with_combined_name panicked: {m}"))?;
    let (ns, name) = reference(&c.ty, &c.text);
    if b.package_type != t || b.parts.namespace.as_str() != ns || b.parts.name.as_str() != name {
        return Err(format!(
            "builder_with_combined_name({}, {:?}) gives type {:?}, namespace {:?}, name {:?}; the reference split is {ns:?} / {name:?}",
            c.ty,
            c.text,
            b.package_type.name(),
            b.parts.namespace.as_str(),
            b.parts.name.as_str()
        ));
    }
    if !b.parts.version.is_empty() || !b.parts.subpath.is_empty() || !b.parts.qualifiers.is_empty() {
        return Err("builder_with_combined_name sets other fields".into());
    }
    // the split is a function of its arguments: asked again, it answers the same
    let again = guard(|| Purl::builder_with_combined_name(t, c.text.as_str())).map_err(|m| format!("the second builder_with_combined_name panicked: {m}"))?;
    if again.parts.namespace != b.parts.namespace || again.parts.name != b.parts.name || again.package_type != b.package_type {
        return Err(format!(
            "builder_with_combined_name({}, <{} bytes>) asked twice: first namespace of {} bytes and name of {} bytes, then namespace of {} bytes and name of {} bytes",
            c.ty,
            c.text.len(),
            b.parts.namespace.len(),
            b.parts.name.len(),
            again.parts.namespace.len(),
            again.parts.name.len()
        ));
    }
    let seps = c.text.chars().filter(|x| *x == '/' || *x == ':').count();
    let other_kind = match c.ty.as_str() {
        "golang" | "npm" => c.text.contains(':'),
        "maven" => c.text.contains('/'),
        _ => seps > 0,
    };
    st.class_if(seps >= 2, "two-or-more-separators");
    st.class_if(other_kind, "separator-of-the-other-kind");
    st.class_if(ns.is_empty() && seps > 0 && !matches!(c.ty.as_str(), "cargo" | "gem" | "nuget" | "pypi"), "nothing-before-the-separator-or-absent");
    if seps >= 2 || other_kind {
        st.nontrivial(&(c.ty.as_str(), c.text.as_str()), || json!({ "type": c.ty, "combined": c.text, "namespace": ns, "name": name }));
    }
    Ok(())
}

#[derive(Clone, Debug, Serialize, Deserialize)]
pub struct RoundTrip {
    pub tuple: Tuple,
    pub choices: Vec<u8>,
}

/// Make the tuple satisfy the side condition of the statement by construction.
fn constrain(mut t: Tuple) -> Tuple {
    match t.ty.as_str() {
        "golang" | "npm" => t.name = t.name.replace('/', "|"),
        "maven" => {
            for s in &mut t.ns {
                *s = s.replace(':', ";");
            }
        },
        _ => t.ns.clear(),
    }
    t
}

fn o_roundtrip(c: &RoundTrip, st: &mut Stats) -> Result<(), String> {
    let s = spell(&c.tuple, &c.choices).assemble();
    let p = match parse::<ITyped>(&s) {
        Ok(Ok(p)) => p,
        other => return Err(format!("bad replay case or parser defect: {s:?} gives {:?}", other.map(|r| r.map(|p| observe(&p))))),
    };
    let o = observe(&p);
    let side = match o.ty.as_str() {
        "golang" | "npm" => !o.name.contains('/'),
        "maven" => !o.ns.as_deref().unwrap_or("").contains(':'),
        _ => o.ns.is_none(),
    };
    if !side {
        return Err("bad replay case: the side condition does not hold".into());
    }
    let combined = guard(|| p.combined_name().into_owned()).map_err(|m| format!("combined_name panicked: {m}"))?;
    let want = match (o.ty.as_str(), &o.ns) {
        ("golang" | "npm", Some(ns)) => format!("{ns}/{}", o.name),
        ("maven", Some(ns)) => format!("{ns}:{}", o.name),
        _ => o.name.clone(),
    };
    if combined != want {
        return Err(format!("combined_name of {o:?} is {combined:?}, expected {want:?}"));
    }
    let rebuilt = guard(|| Purl::builder_with_combined_name(*p.package_type(), combined.as_str()).build())
        .map_err(|m| format!("rebuilding from the combined name panicked: {m}"))?;
    match rebuilt {
        Err(e) => return Err(format!("builder_with_combined_name({}, {combined:?}).build() fails: {e}", o.ty)),
        Ok(q) => {
            let r = observe(&q);
            if r.ns != o.ns || r.name != o.name || r.ty != o.ty {
                return Err(format!(
                    "feeding combined_name {combined:?} back gives namespace {:?} / name {:?}, the PURL had {:?} / {:?}",
                    r.ns, r.name, o.ns, o.name
                ));
            }
        },
    }
    st.class("round-trip");
    let seps = combined.chars().filter(|x| *x == '/' || *x == ':').count();
    st.class_if(seps >= 2, "two-or-more-separators");
    if seps >= 2 {
        st.nontrivial(&(o.ty.as_str(), combined.as_str()), || json!({ "purl": s, "combined": combined }));
    }
    Ok(())
}

/// Builder-made typed PURLs (the namespace is arbitrary text, so it may have leading, trailing or
/// doubled slashes that a parsed PURL never has), constrained to the side condition.
#[derive(Clone, Debug, Serialize, Deserialize)]
pub struct BuiltCase {
    pub ty: String,
    pub ns: String,
    pub name: String,
}

fn o_built(c: &BuiltCase, st: &mut Stats) -> Result<(), String> {
    let t = PackageType::from_str(&c.ty).map_err(|_| "bad replay case: type".to_string())?;
    let side = match c.ty.as_str() {
        "golang" | "npm" => !c.name.contains('/'),
        "maven" => !c.ns.contains(':'),
        _ => c.ns.is_empty(),
    };
    if !side {
        return Err("bad replay case: the side condition does not hold".into());
    }
    let built = guard(|| Purl::builder(t, c.name.as_str()).with_namespace(c.ns.as_str()).build()).map_err(|m| format!("build panicked: {m}"))?;
    let Ok(p) = built else {
        st.class("not-buildable");
        return Ok(());
    };
    let o = observe(&p);
    // the name rule may introduce nothing that breaks the side condition, but check it on the value
    let side = match o.ty.as_str() {
        "golang" | "npm" => !o.name.contains('/'),
        "maven" => !o.ns.as_deref().unwrap_or("").contains(':'),
        _ => o.ns.is_none(),
    };
    if !side {
        return Ok(());
    }
    let combined = guard(|| p.combined_name().into_owned()).map_err(|m| format!("combined_name panicked: {m}"))?;
    let rebuilt = guard(|| Purl::builder_with_combined_name(t, combined.as_str()).build()).map_err(|m| format!("rebuilding panicked: {m}"))?;
    match rebuilt {
        Err(e) => return Err(format!("{o:?}: builder_with_combined_name({}, {combined:?}).build() fails: {e}", c.ty)),
        Ok(q) => {
            let r = observe(&q);
            if r.ns != o.ns || r.name != o.name {
                return Err(format!(
                    "builder-made PURL with namespace {:?} / name {:?}: combined_name() is {combined:?}, which splits back into {:?} / {:?}",
                    o.ns, o.name, r.ns, r.name
                ));
            }
        },
    }
    st.class("round-trip-builder-made");
    let odd = c.ns.starts_with('/') || c.ns.ends_with('/') || c.ns.contains("//");
    st.class_if(odd, "namespace-with-insignificant-slashes");
    let seps = combined.chars().filter(|x| *x == '/' || *x == ':').count();
    if seps >= 2 || odd {
        st.nontrivial(&("built", c.ty.as_str(), combined.as_str()), || json!({ "case": c, "combined": combined }));
    }
    Ok(())
}

fn gbuilt() -> BoxedStrategy<BuiltCase> {
    let ns = prop_oneof![
        3 => select(&["", "/", "//", "a//b", "a/", "/a", "a/b/", "github.com/foo/", "@scope", "g", "a:b", "a/b:c", ".", "a b"][..]).prop_map(str::to_string),
        2 => gtext(0),
    ];
    (select(KNOWN_TYPES), ns, prop_oneof![4 => crate::chars::gtext1(), 1 => select(&["a:b", "a:b:c", ":", "n"][..]).prop_map(str::to_string)])
        .prop_map(|(ty, ns, name)| {
            // now and then the name repeats the namespace (alone, or followed by the separator of either kind)
            let name = match (name.len() + ns.len()) % 9 {
                0 => ns.clone(),
                1 => format!("{ns}:{name}"),
                2 => format!("{ns}/{name}"),
                3 => format!("{name}:{ns}"),
                _ => name,
            };
            let (ns, name) = match ty {
                "golang" | "npm" => (ns, name.replace('/', "|")),
                "maven" => (ns.replace(':', ";"), name),
                _ => (String::new(), name),
            };
            BuiltCase { ty: ty.into(), ns, name }
        })
        .boxed()
}

const SHORT: &[char] = &['a', 'B', '/', ':', '.', '@'];

/// Two combined names split directly after one another on one thread: the same stem followed by
/// every ordered pair of two-character tails over letters of both cases, digits and the characters
/// the ecosystems split at. What a split remembers from the previous call (a memo keyed by something
/// weaker than the text) shows on the second one; two-character tails over a full alphabet contain
/// the collisions of every simple string hash.
#[derive(Clone, Debug, Serialize, Deserialize)]
pub struct CombinedPair {
    pub ty: String,
    pub first: String,
    pub second: String,
}

const TAIL_ALPHABET: &[u8] = b"abcdefghijklmnopqrstuvwxyzABCDEFGHIJKLMNOPQRSTUVWXYZ0123456789/.:@-_";
const TAIL_ALPHABET_QUICK: &[u8] = b"abmnzABMNZ019/.:@-";

fn combined_pair(alphabet: &[u8], idx: u64) -> Option<CombinedPair> {
    let k = alphabet.len() as u64;
    let tails = k * k;
    let per_type = tails * tails;
    let ty = ["golang", "npm", "maven"][(idx / per_type) as usize % 3];
    let i = idx % per_type;
    let tail = |t: u64| -> String { [alphabet[(t % k) as usize] as char, alphabet[(t / k) as usize] as char].iter().collect() };
    let stem = match ty {
        "golang" => "example.com/a",
        "npm" => "@scope/x",
        _ => "org.example:lib",
    };
    Some(CombinedPair { ty: ty.into(), first: format!("{stem}{}", tail(i / tails)), second: format!("{stem}{}", tail(i % tails)) })
}

fn o_combined_pair(c: &CombinedPair, st: &mut Stats) -> Result<(), String> {
    let t = PackageType::from_str(&c.ty).map_err(|_| "bad replay case: type".to_string())?;
    let _ = guard(|| Purl::builder_with_combined_name(t, c.first.as_str()).build().map(|p| p.combined_name().to_string()));
    o_split(&Combined { ty: c.ty.clone(), text: c.second.clone() }, st).map_err(|m| format!("directly after splitting {:?}: {m}", c.first))?;
    st.class("consecutive-pair");
    Ok(())
}

fn pair_in_long_name(idx: u64) -> Option<Combined> {
    let n = TAIL_ALPHABET.len() as u64;
    let ty = ["golang", "npm", "maven"][(idx % 3) as usize];
    let k = (idx / 3) % 8;
    let m = [9usize, 16][((idx / 24) % 2) as usize];
    let pair = idx / 48;
    let (a, b) = (TAIL_ALPHABET[(pair / n) as usize] as char, TAIL_ALPHABET[(pair % n) as usize] as char);
    Some(Combined { ty: ty.into(), text: format!("{}{a}{b}{}", "x".repeat(k as usize), "y".repeat(m)) })
}

pub fn sections() -> Vec<Box<dyn Section>> {
    vec![
        Box::new(Enumerated {
            name: "split-short-strings-exhaustive".into(),
            total: Box::new(|_| 7 * (0..=6u32).map(|l| 6u64.pow(l)).sum::<u64>()),
            make: Box::new(|_, i| {
                let per: u64 = (0..=6u32).map(|l| 6u64.pow(l)).sum();
                let ty = KNOWN_TYPES[(i / per) as usize];
                let mut idx = i % per;
                let mut len = 0u32;
                loop {
                    let n = 6u64.pow(len);
                    if idx < n {
                        break;
                    }
                    idx -= n;
                    len += 1;
                }
                let mut s = String::new();
                for _ in 0..len {
                    s.push(SHORT[(idx % 6) as usize]);
                    idx /= 6;
                }
                Some(Combined { ty: ty.into(), text: s })
            }),
            oracle: o_split,
            required: vec!["two-or-more-separators", "separator-of-the-other-kind", "nothing-before-the-separator-or-absent"],
            complete: true,
        }),
        Box::new(Enumerated {
            name: "consecutive-splits-every-pair-of-tails".into(),
            // quick: an 18-character alphabet (105 k ordered pairs per type); thorough: 68 characters (21 M per type)
            total: Box::new(|t: crate::engine::Tier| {
                let k = t.pick(TAIL_ALPHABET_QUICK.len(), TAIL_ALPHABET.len()) as u64;
                3 * k * k * k * k
            }),
            make: Box::new(|t: crate::engine::Tier, i| combined_pair(t.pick(TAIL_ALPHABET_QUICK, TAIL_ALPHABET), i)),
            oracle: o_combined_pair,
            required: vec!["consecutive-pair"],
            complete: true,
        }),
        Box::new(Enumerated {
            name: "every-pair-at-every-offset-inside-a-long-name".into(),
            total: Box::new(|_| (TAIL_ALPHABET.len() * TAIL_ALPHABET.len() * 48) as u64),
            make: Box::new(|_, i| pair_in_long_name(i)),
            oracle: o_split,
            required: vec!["separator-of-the-other-kind"],
            complete: true,
        }),
        Box::new(Random {
            name: "split-very-long-names".into(),
            quick: 400,
            thorough: 12_000,
            strategy: Box::new(|_| {
                // separators at offsets around 2^16 and 2^17 (and at the sizes the source names)
                let len = prop_oneof![3 => 65_500usize..65_600, 1 => 131_040usize..131_100, 1 => crate::chars::gsize(70_000), 1 => 60_000usize..140_000];
                (select(&["golang", "npm", "maven", "pypi"][..]), len, select(&['m', 'A', '.', '\u{e9}'][..]), 0u8..4)
                    .prop_map(|(ty, n, fill, shape)| {
                        let run: String = std::iter::repeat(fill).take(n).collect();
                        let text = match (ty, shape) {
                            ("maven", 0) => format!("{run}:artifact"),
                            ("maven", 1) => format!("org.example:{run}"),
                            ("maven", _) => format!("{run}:{run}"),
                            (_, 0) => format!("example.com/{run}/pkg"),
                            (_, 1) => format!("{run}/x"),
                            (_, 2) => format!("@scope/{run}"),
                            _ => format!("{run}/{run}"),
                        };
                        Combined { ty: ty.into(), text }
                    })
                    .boxed()
            }),
            oracle: o_split,
            required: vec![],
        }),
        Box::new(Random {
            name: "split-random-strings".into(),
            quick: 150_000,
            thorough: 5_000_000,
            strategy: Box::new(|_| {
                let piece = prop_oneof![
                    3 => gtext(0),
                    1 => crate::chars::gliteral(),
                    2 => select(&["/", ":", "//", "::", "/:", ":/", "@", "a", ""][..]).prop_map(str::to_string),
                    // spellings that ecosystems give a meaning to (module major versions, extras, scopes, classifiers)
                    2 => select(&["v2", "/v2", "/v10", "v1", "/v0", "[extra]", "[a,b]", "requests[security]", "@scope", ".git", "go.mod", ":jar:sources", "@1.0", "#frag", "?q=1", "+incompatible"][..]).prop_map(str::to_string),
                ];
                (select(KNOWN_TYPES), proptest::collection::vec(piece, 0..=6))
                    .prop_map(|(ty, v)| Combined { ty: ty.into(), text: v.concat() })
                    .boxed()
            }),
            oracle: o_split,
            required: vec!["two-or-more-separators", "separator-of-the-other-kind"],
        }),
        Box::new(Random {
            name: "join-then-split-round-trip".into(),
            quick: 150_000,
            thorough: 5_000_000,
            strategy: Box::new(|_| (gtuple(true), gchoices()).prop_map(|(t, choices)| RoundTrip { tuple: constrain(t), choices }).boxed()),
            oracle: o_roundtrip,
            required: vec!["round-trip", "two-or-more-separators"],
        }),
        Box::new(Random {
            name: "join-then-split-round-trip-builder-made".into(),
            quick: 150_000,
            thorough: 5_000_000,
            strategy: Box::new(|_| gbuilt()),
            oracle: o_built,
            required: vec!["round-trip-builder-made", "namespace-with-insignificant-slashes", "not-buildable"],
        }),
    ]
}

pub fn prop() -> Prop {
    Prop {
        id: "C18",
        sections,
        rule: "Combined names: every string up to length 6 over {a, B, /, :, ., @} x seven types (complete) and random text \
               rich in '/' and ':'; oracle = reference split (last '/' for golang/npm, first ':' for maven, whole string \
               otherwise; the given type; no other field set). Round trip: typed PURLs parsed from generated spellings, \
               constrained by construction to the stated side condition (no '/' in golang/npm names, no ':' in maven \
               namespaces, no namespace otherwise) and builder-made typed PURLs whose namespace is arbitrary \
               text (leading / trailing / doubled slashes included), under the same side condition: combined_name() joins with the ecosystem separator and \
               builder_with_combined_name(type, combined_name()).build() reproduces namespace and name. Non-trivial = \
               the string has two or more separators or a separator of the other kind; distinct by hash of (type, string).",
        assumptions: &[],
        extra: None,
    }
}
