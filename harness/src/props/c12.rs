//! C12 - checksum qualifier: one canonical text, typed round trip, order independence.

use std::collections::BTreeMap;

use proptest::prelude::*;
use purl::qualifiers::well_known::Checksum;
use purl::GenericPurlBuilder;
use serde::{Deserialize, Serialize};
use serde_json::json;

use crate::api::{parse, IStr, ITyped, ParseInst, SmallString};
use crate::engine::{guard, Random, Section, Stats, Tier};
use crate::model;
use crate::props::Prop;
use crate::spell::{galgorithm, gchoices, spell, Chooser, Tuple};

#[derive(Clone, Debug, Serialize, Deserialize, PartialEq, Eq, Hash)]
pub enum COp {
    /// insert(algorithm as written, bytes)
    Insert(String, Vec<u8>),
    /// insert_raw(algorithm as written, upper-case hex of bytes)
    InsertRawUpper(String, Vec<u8>),
    /// insert_raw(algorithm as written, lower-case hex of bytes)
    InsertRawLower(String, Vec<u8>),
    /// remove(lower-cased algorithm)
    Remove(String),
}

#[derive(Clone, Debug, Serialize, Deserialize)]
pub struct CkCase {
    pub ops: Vec<COp>,
    /// choice stream: insertion orders and case variants of the K fresh instances
    pub orders: Vec<u8>,
    /// choice stream for the PURL-level spelling
    pub spelling: Vec<u8>,
}

const K: usize = 8;

fn hex_upper(b: &[u8]) -> String {
    model::hex_lower(b).to_ascii_uppercase()
}

fn apply(c: &mut Checksum<'static>, op: &COp) {
    match op {
        COp::Insert(a, b) => c.insert(a, b.clone()),
        COp::InsertRawUpper(a, b) => c.insert_raw(a, hex_upper(b)),
        COp::InsertRawLower(a, b) => c.insert_raw(a, model::hex_lower(b)),
        COp::Remove(a) => c.remove(&model::lower(a)),
    }
}

/// Another letter case of `alg` with the same char-wise lower-casing.
fn case_variant(alg: &str, ch: &mut Chooser<'_>) -> String {
    let mut out = String::new();
    for c in alg.chars() {
        if ch.flag() {
            let mut up = c.to_uppercase();
            if let (Some(u), None) = (up.next(), up.next()) {
                if u.to_lowercase().eq(c.to_lowercase()) {
                    out.push(u);
                    continue;
                }
            }
        }
        out.push(c);
    }
    out
}

fn check_typed(c: &Checksum<'_>, m: &BTreeMap<String, Vec<u8>>, what: &str) -> Result<(), String> {
    let mut algs: Vec<String> = c.algorithms().map(str::to_string).collect();
    algs.sort();
    let want: Vec<String> = m.keys().cloned().collect();
    let mut want_sorted = want.clone();
    want_sorted.sort();
    if algs != want_sorted {
        return Err(format!("{what}: algorithms {algs:?}, reference {want_sorted:?}"));
    }
    let mut seen = 0;
    for (a, v) in c.iter() {
        seen += 1;
        let Some(b) = m.get(a) else { return Err(format!("{what}: iter() yields unknown algorithm {a:?}")) };
        if !v.raw().eq_ignore_ascii_case(&model::hex_lower(b)) {
            return Err(format!("{what}: iter() yields {a:?} -> {:?}, reference bytes {b:?}", v.raw()));
        }
    }
    if seen != m.len() {
        return Err(format!("{what}: iter() yields {seen} entries, reference {}", m.len()));
    }
    for (a, b) in m {
        match c.get::<Vec<u8>>(a) {
            Ok(Some(got)) if got == *b => {},
            other => return Err(format!("{what}: get({a:?}) gives {other:?}, inserted bytes {b:?}")),
        }
        let raw = c.get_raw(a);
        if raw.map(|r| r.to_ascii_lowercase()) != Some(model::hex_lower(b)) {
            return Err(format!("{what}: get_raw({a:?}) gives {raw:?}"));
        }
        let v = c.get_value(a).ok_or_else(|| format!("{what}: get_value({a:?}) is None"))?;
        let d: &str = &v;
        if d != v.raw() || v.decode::<Vec<u8>>().ok().as_ref() != Some(b) {
            return Err(format!("{what}: ChecksumValue of {a:?} decodes to {:?}", v.decode::<Vec<u8>>()));
        }
    }
    Ok(())
}

fn judge(c: &CkCase, st: &mut Stats) -> Result<(), String> {
    // reference
    let mut m: BTreeMap<String, Vec<u8>> = BTreeMap::new();
    let mut reinsert_other_case = false;
    let mut spelled: BTreeMap<String, String> = BTreeMap::new();
    for op in &c.ops {
        match op {
            COp::Insert(a, b) | COp::InsertRawUpper(a, b) | COp::InsertRawLower(a, b) => {
                if a.contains(',') {
                    return Err("bad replay case: algorithm contains ','".into());
                }
                let la = model::lower(a);
                if let Some(prev) = spelled.get(&la) {
                    if prev != a {
                        reinsert_other_case = true;
                    }
                }
                spelled.insert(la.clone(), a.clone());
                m.insert(la, b.clone());
            },
            COp::Remove(a) => {
                m.remove(&model::lower(a));
                spelled.remove(&model::lower(a));
            },
        }
    }
    let want_text = model::cksum_text(&m.iter().map(|(a, b)| (a.clone(), model::hex_lower(b))).collect::<Vec<_>>());

    // instance 0 follows the history literally; instances 1..K get the final entries in generated
    // orders and letter cases. Every instance has its own randomly keyed map.
    let mut ch = Chooser::new(&c.orders);
    let mut unsorted_insertion = false;
    for inst in 0..K {
        let mut ck = Checksum::default();
        if inst == 0 {
            for op in &c.ops {
                apply(&mut ck, op);
            }
            let order: Vec<String> = c
                .ops
                .iter()
                .filter_map(|o| match o {
                    COp::Insert(a, _) | COp::InsertRawUpper(a, _) | COp::InsertRawLower(a, _) => Some(model::lower(a)),
                    _ => None,
                })
                .collect();
            if order.windows(2).any(|w| w[0] > w[1]) {
                unsorted_insertion = true;
            }
        } else {
            let mut entries: Vec<(&String, &Vec<u8>)> = m.iter().collect();
            for i in (1..entries.len()).rev() {
                let j = ch.next(i + 1);
                entries.swap(i, j);
            }
            if entries.windows(2).any(|w| w[0].0 > w[1].0) {
                unsorted_insertion = true;
            }
            for (a, b) in entries {
                let alg = case_variant(a, &mut ch);
                match ch.next(3) {
                    0 => ck.insert(&alg, b.clone()),
                    1 => ck.insert_raw(&alg, hex_upper(b)),
                    _ => ck.insert_raw(&alg, model::hex_lower(b)),
                }
            }
        }
        check_typed(&ck, &m, &format!("instance {inst}"))?;
        let text = SmallString::try_from(ck.clone()).map_err(|e| format!("instance {inst}: serialising failed with {e}"))?;
        if text.as_str() != want_text {
            return Err(format!("instance {inst}: text form {:?}, canonical text {want_text:?}", text.as_str()));
        }
        if !m.is_empty() {
            let back = Checksum::try_from(text.as_str()).map_err(|e| format!("instance {inst}: the text form {:?} does not parse back: {e}", text.as_str()))?;
            check_typed(&back, &m, &format!("instance {inst} parsed back from {:?}", text.as_str()))?;
            let again = SmallString::try_from(back).map_err(|e| format!("re-serialising failed with {e}"))?;
            if again != text {
                return Err(format!("text form {:?} re-serialises as {:?}", text.as_str(), again.as_str()));
            }
        }
    }

    // PURL level
    let entries: Vec<(String, Vec<u8>)> = m.iter().map(|(a, b)| (spelled.get(a).cloned().unwrap_or_else(|| a.clone()), b.clone())).collect();
    let tuple = Tuple { ty: "npm".into(), ns: vec![], name: "n".into(), version: None, quals: vec![], checksum: entries.clone(), subpath: vec![] };
    let s = spell(&tuple, &c.spelling).assemble();
    purl_level::<IStr>(&s, &want_text, &m)?;
    purl_level::<ITyped>(&s, &want_text, &m)?;
    // through the builder, typed value and plain text
    let mut ck = Checksum::default();
    for (a, b) in entries.iter().rev() {
        ck.insert(a, b.clone());
    }
    let built = GenericPurlBuilder::new("t".to_string(), "n")
        .try_with_typed_qualifier(Some(ck))
        .map_err(|e| format!("try_with_typed_qualifier failed: {e}"))?
        .build()
        .map_err(|e| format!("build() with a typed checksum failed: {e}"))?;
    let got = built.qualifiers().get("checksum").map(str::to_string);
    let want = if m.is_empty() { None } else { Some(want_text.clone()) };
    if got != want {
        return Err(format!("built PURL carries checksum {got:?}, canonical text {want:?}"));
    }
    if !m.is_empty() {
        let typed = built.qualifiers().try_get_typed::<Checksum>().map_err(|e| format!("typed accessor failed: {e}"))?;
        check_typed(&typed.ok_or("typed accessor gives None")?, &m, "typed accessor of the built PURL")?;
        // a non-canonical text given as a plain qualifier
        let noncanon: String = entries.iter().rev().map(|(a, b)| format!("{a}:{}", hex_upper(b))).collect::<Vec<_>>().join(",");
        let built2 = GenericPurlBuilder::new("t".to_string(), "n")
            .with_qualifier("Checksum", noncanon.as_str())
            .map_err(|e| format!("with_qualifier failed: {e}"))?
            .build()
            .map_err(|e| format!("build() with checksum text {noncanon:?} failed: {e}"))?;
        if built2.qualifiers().get("checksum") != Some(want_text.as_str()) {
            return Err(format!("checksum text {noncanon:?} is carried as {:?}, canonical text {want_text:?}", built2.qualifiers().get("checksum")));
        }
    }

    st.class_if(m.is_empty(), "empty-set");
    st.class_if(m.len() >= 2, "two-or-more-entries");
    st.class_if(unsorted_insertion, "inserted-in-non-sorted-order");
    st.class_if(reinsert_other_case, "re-inserted-in-another-case");
    st.class_if(m.keys().any(|a| a.contains(':')), "algorithm-with-colon");
    st.class_if(m.keys().any(|a| !a.is_ascii()), "algorithm-non-ascii");
    st.class_if(m.values().any(|b| b.is_empty()), "empty-byte-string");
    if (m.len() >= 2 && unsorted_insertion) || reinsert_other_case {
        st.nontrivial(&(&c.ops, &c.orders), || json!({ "ops": c.ops, "canonical": want_text, "spelled": s }));
    }
    Ok(())
}

fn purl_level<I: ParseInst>(s: &str, want_text: &str, m: &BTreeMap<String, Vec<u8>>) -> Result<(), String> {
    let p = match parse::<I>(s) {
        Err(e) => return Err(format!("[{}] parsing {s:?} panicked: {e}", I::NAME)),
        Ok(Err(k)) => return Err(format!("[{}] {s:?} refused with {k}", I::NAME)),
        Ok(Ok(p)) => p,
    };
    let got = p.qualifiers().get("checksum").map(str::to_string);
    let want = if m.is_empty() { None } else { Some(want_text.to_string()) };
    if got != want {
        return Err(format!("[{}] {s:?} carries checksum {got:?}, canonical text {want:?}", I::NAME));
    }
    if !m.is_empty() {
        let typed = p.qualifiers().try_get_typed::<Checksum>().map_err(|e| format!("typed accessor failed: {e}"))?;
        check_typed(&typed.ok_or("typed accessor gives None")?, m, &format!("[{}] typed accessor of the PURL parsed from {s:?}", I::NAME))?;
    }
    Ok(())
}

fn o_case(c: &CkCase, st: &mut Stats) -> Result<(), String> {
    match guard(|| judge(c, st)) {
        Err(m) => Err(format!("a checksum operation panicked: {m}")),
        Ok(r) => r,
    }
}

fn gcop() -> BoxedStrategy<COp> {
    let bytes = || proptest::collection::vec(any::<u8>(), 0..=5);
    prop_oneof![
        5 => (galgorithm(), bytes()).prop_map(|(a, b)| COp::Insert(a, b)),
        2 => (galgorithm(), bytes()).prop_map(|(a, b)| COp::InsertRawUpper(a, b)),
        1 => (galgorithm(), bytes()).prop_map(|(a, b)| COp::InsertRawLower(a, b)),
        2 => galgorithm().prop_map(COp::Remove),
    ]
    .boxed()
}

fn gcase() -> BoxedStrategy<CkCase> {
    let ops = prop_oneof![
        30 => proptest::collection::vec(gcop(), 0..=8),
        // more than 64 algorithms, inserted in descending order, followed by a few more operations
        1 => (prop_oneof![2 => (65usize..=90).boxed(), 1 => crate::spell::gcount(100)], proptest::collection::vec(gcop(), 0..=3)).prop_map(|(n, tail)| {
            let mut v: Vec<COp> = (0..n).rev().map(|i| COp::Insert(format!("h{i:02}"), vec![i as u8])).collect();
            v.extend(tail);
            v
        }),
        // one very long digest
        1 => (proptest::collection::vec(any::<u8>(), 120..=300), any::<bool>()).prop_map(|(b, up)| vec![if up { COp::InsertRawUpper("shake256".into(), b) } else { COp::Insert("shake256".into(), b) }]),
    ];
    (ops, proptest::collection::vec(any::<u8>(), 0..=64), gchoices())
        .prop_map(|(ops, orders, spelling)| CkCase { ops, orders, spelling })
        .boxed()
}

/// The entries a case ends up with, written as a PURL (what the prelude's related calls are derived from).
fn case_text(c: &CkCase) -> String {
    let mut m: BTreeMap<String, (String, Vec<u8>)> = BTreeMap::new();
    for op in &c.ops {
        match op {
            COp::Insert(a, b) | COp::InsertRawUpper(a, b) | COp::InsertRawLower(a, b) => {
                m.insert(model::lower(a), (a.clone(), b.clone()));
            },
            COp::Remove(a) => {
                m.remove(&model::lower(a));
            },
        }
    }
    let value: Vec<String> = m.values().map(|(a, b)| format!("{a}:{}", model::hex_lower(b))).collect();
    let escaped: String = value
        .join(",")
        .bytes()
        .map(|b| if b.is_ascii_alphanumeric() || b == b':' || b == b',' || b == b'-' { (b as char).to_string() } else { format!("%{b:02X}") })
        .collect();
    format!("pkg:npm/n?checksum={escaped}")
}

fn o_hist(h: &crate::history::Hist<CkCase>, st: &mut Stats) -> Result<(), String> {
    let text = case_text(&h.inner);
    crate::history::judge(h, &text, o_case, st)
}

/// A checksum with *very many* algorithms (tens of thousands of distinct names: n^2/2 pairs, so a
/// digest or bucket kept per name meets its collisions): written in descending order with every third
/// name in upper case and upper-case hex, it must parse, hold exactly those entries, and print in
/// the canonical form; the same through a PURL.
fn o_many(c: &crate::props::c02::ManyKeys, st: &mut Stats) -> Result<(), String> {
    if c.n > 200_000 {
        return Err("bad replay case: many-algorithms parameters".into());
    }
    let r = guard(|| -> Result<(), String> {
        let names = crate::props::c02::many_keys(c.seed, c.n);
        let mut m: BTreeMap<String, Vec<u8>> = BTreeMap::new();
        let mut written: Vec<String> = Vec::with_capacity(names.len());
        for (j, (a, _)) in names.iter().enumerate().rev() {
            let bytes = vec![(j >> 8) as u8, j as u8];
            let spelled = if crate::engine::mix(&[c.seed, j as u64, 13]) % 3 == 0 { a.to_ascii_uppercase() } else { a.clone() };
            written.push(format!("{spelled}:{}", hex_upper(&bytes)));
            m.insert(a.clone(), bytes);
        }
        let text = written.join(",");
        let want_text = model::cksum_text(&m.iter().map(|(a, b)| (a.clone(), model::hex_lower(b))).collect::<Vec<_>>());
        let short = |e: String| e.chars().take(400).collect::<String>();
        let ck = Checksum::try_from(text.as_str()).map_err(|e| format!("a checksum text with {} distinct algorithms is refused: {e}", m.len()))?;
        check_typed(&ck, &m, &format!("{} algorithms parsed", m.len())).map_err(short)?;
        let out = SmallString::try_from(ck).map_err(|e| format!("serialising {} algorithms failed: {e}", m.len()))?;
        if out.as_str() != want_text {
            let at = out.as_str().bytes().zip(want_text.bytes()).position(|(a, b)| a != b).unwrap_or(0);
            return Err(format!("{} algorithms: the text form differs from the canonical text at byte {at}: ...{:?} vs ...{:?}", m.len(), out.as_str().get(at.saturating_sub(20)..(at + 20).min(out.len())), want_text.get(at.saturating_sub(20)..(at + 20).min(want_text.len()))));
        }
        let s = format!("pkg:npm/n?checksum={text}");
        match parse::<IStr>(&s) {
            Ok(Ok(p)) => {
                if p.qualifiers().get("checksum") != Some(want_text.as_str()) {
                    return Err(format!("a PURL with a checksum of {} algorithms does not carry the canonical text", m.len()));
                }
            },
            other => return Err(format!("a PURL with a checksum of {} distinct algorithms is not accepted: {:?}", m.len(), other.map(|r| r.map(|_| ())))),
        }
        Ok(())
    });
    match r {
        Err(m) => return Err(format!("a checksum operation panicked: {m}")),
        Ok(r) => r?,
    }
    st.class(match c.n {
        0..=9_999 => "thousands of algorithms",
        10_000..=65_535 => "tens of thousands of algorithms",
        _ => "more than 65535 algorithms",
    });
    st.nontrivial(&(c.seed, c.n), || json!({ "seed": c.seed, "algorithms": c.n }));
    Ok(())
}

fn o_session(s: &crate::history::Session<CkCase>, st: &mut Stats) -> Result<(), String> {
    crate::history::judge_session(s, o_case, st)
}

fn lc_case(max: u32, i: u64) -> Option<CkCase> {
    let a = crate::chars::length_changing_alphabet();
    let n = crate::props::c10::names_total(a, max);
    let alg = crate::props::c10::name_from_index(a, max, i % n);
    if alg.contains(',') {
        return None;
    }
    // the name alone, and next to a second algorithm that it may collide with once lower-cased
    let ops = if i < n {
        vec![COp::Insert(alg, vec![0x0f, 0xf0])]
    } else {
        vec![COp::InsertRawUpper("zz".into(), vec![1]), COp::Insert(alg, vec![0xab]), COp::Insert("a".into(), vec![2])]
    };
    Some(CkCase { ops, orders: vec![1, 0, 1, 1, 0, 2, 1, 0], spelling: vec![] })
}

pub fn sections() -> Vec<Box<dyn Section>> {
    vec![
        Box::new(crate::engine::Enumerated {
            name: "algorithm-names-near-the-inline-capacity".into(),
            total: Box::new(|_| crate::chars::names_near_inline_capacity().len() as u64),
            make: Box::new(|_, i| {
                let alg = crate::chars::names_near_inline_capacity()[i as usize].clone();
                if alg.contains(',') {
                    return None;
                }
                Some(CkCase { ops: vec![COp::InsertRawUpper("zz".into(), vec![1]), COp::Insert(alg, vec![0xab]), COp::Insert("a".into(), vec![2])], orders: vec![1, 0, 1, 1, 0, 2, 1, 0], spelling: vec![] })
            }),
            oracle: o_case,
            required: vec!["algorithm-non-ascii"],
            complete: true,
        }),
        Box::new(crate::engine::Enumerated {
            name: "algorithm-names-over-length-changing-case-letters".into(),
            total: Box::new(|t: Tier| 2 * crate::props::c10::names_total(crate::chars::length_changing_alphabet(), t.pick(3, 4))),
            make: Box::new(|t: Tier, i| lc_case(t.pick(3, 4), i)),
            oracle: o_case,
            required: vec!["algorithm-non-ascii"],
            complete: true,
        }),
        Box::new(Random {
            name: "very-many-algorithms".into(),
            quick: 120,
            thorough: 3_000,
            strategy: Box::new(|_: Tier| crate::props::c02::gmany()),
            oracle: o_many,
            required: vec!["thousands of algorithms", "tens of thousands of algorithms", "more than 65535 algorithms"],
        }),
        Box::new(Random {
            name: "sessions-of-entry-sets".into(),
            quick: 40,
            thorough: 1200,
            strategy: Box::new(|_| crate::history::gsession(gcase())),
            oracle: o_session,
            required: vec!["judged inside a session", "session of 1000 or more cases"],
        }),
        Box::new(Random {
            name: "entry-sets-after-a-prelude".into(),
            quick: 16_000,
            thorough: 400_000,
            strategy: Box::new(|_: Tier| crate::history::ghist(gcase())),
            oracle: o_hist,
            required: vec!["two-or-more-entries"],
        }),
        Box::new(Random {
            name: "entry-sets-orders-cases".into(),
            quick: 120_000,
            thorough: 4_000_000,
            strategy: Box::new(|_: Tier| gcase()),
            oracle: o_case,
            required: vec![
                "empty-set",
                "two-or-more-entries",
                "inserted-in-non-sorted-order",
                "re-inserted-in-another-case",
                "algorithm-with-colon",
                "algorithm-non-ascii",
                "empty-byte-string",
            ],
        }),
    ]
}

pub fn prop() -> Prop {
    Prop {
        id: "C12",
        sections,
        rule: "Histories of insert / insert_raw (upper- or lower-case hex) / remove on a typed Checksum with algorithms that \
               are arbitrary strings without ',' (incl. ':', upper-case, non-ASCII, titlecase, empty) and arbitrary byte \
               strings (incl. empty). Oracle: for 8 fresh instances per case (the history itself, then the final entries \
               in 7 generated insertion orders and letter cases; every instance has its own randomly keyed hash map, \
               runs are spread over 16 threads) the text form equals the reference canonical text (entries sorted by \
               char-wise lower-cased algorithm, lower-case hex), parses back to the same entries, get/get_raw/get_value/ \
               iter/algorithms agree with the reference map; at PURL level the same entries spelled as a qualifier in a \
               generated order, case and escaping (parser, String and PackageType), passed as a typed value to the \
               builder, or as non-canonical text, carry that one text and read back through the typed accessor. \
               Non-trivial = two or more entries inserted in non-sorted order, or a re-insertion in another letter case; \
               distinct by hash of (history, orders).",
        assumptions: &[
            "look-ups use the lower-cased algorithm only; the empty set has no text form and is judged for 'no panic, qualifier absent'",
            "hash-map iteration orders are sampled (fresh RandomState per instance), not enumerated",
        ],
        extra: None,
    }
}

/// Re-used by C06.
pub fn gcase_pub() -> BoxedStrategy<CkCase> {
    gcase()
}

/// For C06: only a panic is C06's business; a disagreement with the reference is C12's.
pub fn o_case_pub(c: &CkCase, st: &mut Stats) -> Result<(), String> {
    match o_case(c, st) {
        Err(m) if m.contains("panicked") || m.contains("panic escaped") => Err(m),
        _ => Ok(()),
    }
}

pub fn o_case_full(c: &CkCase, st: &mut Stats) -> Result<(), String> {
    o_case(c, st)
}
