//! C03 - the canonical string has exactly the documented shape and escaping.

use proptest::prelude::*;
use purl::{GenericPurlBuilder, PurlParts, Qualifiers};
use serde::{Deserialize, Serialize};
use serde_json::json;

use crate::api::{build, observe, parse, text, ISmall, IStr, ITyped, Inst, ParseInst, SmallString};
use crate::chars::{gtext, gtype, KNOWN_TYPES};
use crate::engine::{Enumerated, Random, Section, Stats, Tier};
use crate::model::{must_escape, render, Obs, Pos};
use crate::props::c01::{gspelled, SpelledCase};
use crate::props::Prop;
use crate::spell::spell;

/// Field values assigned directly to the public parts of a builder.
#[derive(Clone, Debug, Serialize, Deserialize, PartialEq, Eq, Hash)]
pub struct Fields {
    /// a type string (String parameter) or one of the seven names (PackageType parameter)
    pub ty: String,
    pub typed: bool,
    pub ns: String,
    pub name: String,
    pub version: String,
    pub quals: Vec<(String, String)>,
    pub subpath: String,
}

pub fn build_fields<I: Inst>(f: &Fields) -> Result<Option<purl::GenericPurl<I::T>>, String> {
    let Some(ty) = I::make_type(&f.ty) else { return Err(format!("bad replay case: type {:?}", f.ty)) };
    let mut q = Qualifiers::default();
    for (k, v) in &f.quals {
        let _ = q.insert(k.as_str(), v.as_str());
    }
    let b = GenericPurlBuilder {
        package_type: ty,
        parts: PurlParts {
            namespace: SmallString::from(f.ns.as_str()),
            name: SmallString::from(f.name.as_str()),
            version: SmallString::from(f.version.as_str()),
            qualifiers: q,
            subpath: SmallString::from(f.subpath.as_str()),
        },
    };
    match build::<I>(b) {
        // no value, nothing to print: the panic itself is C06's business
        Err(_) => Ok(None),
        Ok(Err(_)) => Ok(None),
        Ok(Ok(p)) => Ok(Some(p)),
    }
}

/// The oracle proper: string == M-render(accessors), plus the shape invariants.
pub fn check_shape(o: &Obs, s: &str) -> Result<(), String> {
    let want = render(o);
    if s != want {
        return Err(format!("to_string() is {s:?} but the accessors {o:?} render as {want:?}"));
    }
    if !s.bytes().all(|b| (0x21..=0x7e).contains(&b)) {
        return Err(format!("canonical string {s:?} contains a byte outside 0x21..=0x7E"));
    }
    let Some(rest) = s.strip_prefix("pkg:") else { return Err(format!("{s:?} does not start with pkg:")) };
    if rest.bytes().filter(|b| *b == b'#').count() > 1 {
        return Err(format!("{s:?} has more than one '#'"));
    }
    let main = rest.split('#').next().unwrap();
    if main.bytes().filter(|b| *b == b'?').count() > 1 {
        return Err(format!("{s:?} has more than one '?' before the '#'"));
    }
    let path = main.split('?').next().unwrap();
    if path.bytes().filter(|b| *b == b'@').count() > 1 {
        return Err(format!("{s:?} has more than one '@' in the path part"));
    }
    let ty = path.split('/').next().unwrap();
    if ty.is_empty() || ty.bytes().any(|b| b.is_ascii_uppercase()) {
        return Err(format!("{s:?}: type {ty:?} is empty or has an upper-case letter"));
    }
    Ok(())
}

fn needs_escape(o: &Obs) -> bool {
    let any = |s: &str, p: Pos| s.bytes().any(|b| must_escape(b, p));
    o.ns.as_deref().map(|s| any(s, Pos::Namespace)).unwrap_or(false)
        || any(&o.name, Pos::Name)
        || o.version.as_deref().map(|s| any(s, Pos::Version)).unwrap_or(false)
        || o.quals.iter().any(|(_, v)| any(v, Pos::QualValue))
        || o.subpath.as_deref().map(|s| any(s, Pos::Subpath)).unwrap_or(false)
}

fn judge<I: Inst>(f: &Fields, st: &mut Stats) -> Result<(), String> {
    let Some(p) = build_fields::<I>(f)? else {
        st.class("build-refused");
        return Ok(());
    };
    let o = observe(&p);
    let s = text(&p).map_err(|m| format!("[{}] to_string() panicked for {f:?}: {m}", I::NAME))?;
    check_shape(&o, &s).map_err(|m| format!("[{}] {m}", I::NAME))?;
    crate::api::check_flags(&p, &s, I::NAME)?;
    let esc = needs_escape(&o);
    st.class_if(esc, "needs-escaping");
    st.class_if(I::TYPED, "typed");
    if esc || o.ns.is_some() || o.version.is_some() || !o.quals.is_empty() || o.subpath.is_some() {
        st.nontrivial(&(I::NAME, &o), || json!({ "inst": I::NAME, "string": s, "accessors": o }));
    }
    Ok(())
}

fn o_fields(f: &Fields, st: &mut Stats) -> Result<(), String> {
    if f.typed {
        judge::<ITyped>(f, st)
    } else {
        judge::<IStr>(f, st)?;
        judge::<ISmall>(f, st)
    }
}

fn scalar_case(idx: u64) -> Option<Fields> {
    // idx = scalar * 6 + variant; variant: 0 alone/String, 1 in context a.c.b/String, 2 alone/typed, 3 context/typed,
    // 4 at the end of a 30-character run/String, 5 in the middle of a 30-character run/typed (the same long text
    // in every position)
    let scalar = (idx / 6) as u32;
    let variant = idx % 6;
    let c = char::from_u32(scalar)?;
    let x = match variant {
        0 | 2 => c.to_string(),
        1 | 3 => format!("a{c}b"),
        4 => format!("{}{c}", "a".repeat(30)),
        _ => format!("{}{c}{}", "b".repeat(15), "b".repeat(15)),
    };
    let typed = variant == 2 || variant == 3 || variant == 5;
    let ty = if typed { KNOWN_TYPES[(scalar as usize) % 7].to_string() } else { "t".to_string() };
    Some(Fields { ty, typed, ns: x.clone(), name: x.clone(), version: x.clone(), quals: vec![("k".into(), x.clone())], subpath: x })
}

fn pair_case(idx: u64) -> Option<Fields> {
    let pos = idx % 5;
    let pair = idx / 5;
    let (a, b) = ((pair / 128) as u8 as char, (pair % 128) as u8 as char);
    let x: String = [a, b].iter().collect();
    let plain = "p".to_string();
    let mut f = Fields {
        ty: "t".into(),
        typed: false,
        ns: plain.clone(),
        name: plain.clone(),
        version: plain.clone(),
        quals: vec![("k".into(), plain.clone())],
        subpath: plain,
    };
    match pos {
        0 => f.ns = x,
        1 => f.name = x,
        2 => f.version = x,
        3 => f.quals[0].1 = x,
        _ => f.subpath = x,
    }
    Some(f)
}

/// Every ASCII pair at every offset (mod 8) inside a run of 17-24 bytes, in every position: an encoder
/// that works a machine word at a time treats a byte differently depending on its neighbours and on
/// where in the word it sits, which neither single characters nor short pairs show.
fn pair_in_run_case(idx: u64) -> Option<Fields> {
    let pos = idx % 5;
    let k = (idx / 5) % 8;
    let pair = idx / 40;
    let (a, b) = ((pair / 128) as u8 as char, (pair % 128) as u8 as char);
    let x: String = format!("{}{a}{b}{}", "p".repeat(k as usize), "p".repeat(15));
    let plain = "p".to_string();
    let mut f = Fields { ty: "t".into(), typed: false, ns: plain.clone(), name: plain.clone(), version: plain.clone(), quals: vec![("k".into(), plain.clone())], subpath: plain };
    match pos {
        0 => f.ns = x,
        1 => f.name = x,
        2 => f.version = x,
        3 => f.quals[0].1 = x,
        _ => f.subpath = x,
    }
    Some(f)
}

fn gfields() -> BoxedStrategy<Fields> {
    let ty = prop_oneof![
        2 => gtype().prop_map(|t| (t, false)),
        1 => proptest::sample::select(KNOWN_TYPES).prop_map(|t| (t.to_string(), true)),
    ];
    (
        ty,
        gtext(0),
        gtext(0),
        gtext(0),
        proptest::collection::vec((crate::buildprog::gkey_any(), gtext(0)), 0..=3),
        gtext(0),
    )
        .prop_map(|((ty, typed), ns, name, version, quals, subpath)| Fields { ty, typed, ns, name, version, quals, subpath })
        .boxed()
}

pub fn parsed<I: ParseInst>(s: &str, st: &mut Stats) -> Result<(), String> {
    let Ok(Ok(p)) = parse::<I>(s) else { return Ok(()) };
    let o = observe(&p);
    let t = text(&p).map_err(|m| format!("[{}] to_string() panicked for the PURL parsed from {s:?}: {m}", I::NAME))?;
    check_shape(&o, &t).map_err(|m| format!("[{}] parsed from {s:?}: {m}", I::NAME))?;
    crate::api::check_flags(&p, &t, I::NAME)?;
    st.class("parsed-value");
    if needs_escape(&o) {
        st.nontrivial(&(I::NAME, &o), || json!({ "inst": I::NAME, "parsed_from": s, "string": t }));
    }
    Ok(())
}

fn o_parsed(c: &SpelledCase, st: &mut Stats) -> Result<(), String> {
    let s = spell(&c.tuple, &c.choices).assemble();
    parsed::<IStr>(&s, st)?;
    parsed::<ISmall>(&s, st)?;
    parsed::<ITyped>(&s, st)
}

fn o_hist(h: &crate::history::Hist<Fields>, st: &mut Stats) -> Result<(), String> {
    // the judged text for the prelude: what the fields print as (if they build at all)
    let text = build_fields::<IStr>(&Fields { typed: false, ..h.inner.clone() }).ok().flatten().and_then(|p| text(&p).ok()).unwrap_or_default();
    crate::history::judge(h, &text, o_fields, st)
}

fn o_session(s: &crate::history::Session<Fields>, st: &mut Stats) -> Result<(), String> {
    crate::history::judge_session(s, o_fields, st)
}

pub fn sections() -> Vec<Box<dyn Section>> {
    vec![
        Box::new(Random {
            name: "sessions-of-fields".into(),
            quick: 60,
            thorough: 2000,
            strategy: Box::new(|_| crate::history::gsession(gfields())),
            oracle: o_session,
            required: vec!["judged inside a session", "session of 1000 or more cases"],
        }),
        Box::new(Random {
            name: "random-fields-after-a-prelude".into(),
            quick: 16_000,
            thorough: 400_000,
            strategy: Box::new(|_| crate::history::ghist(gfields())),
            oracle: o_hist,
            required: vec!["needs-escaping"],
        }),
        Box::new(Enumerated {
            name: "every-scalar-value-in-every-position".into(),
            total: Box::new(|_| 0x110000 * 6),
            make: Box::new(|_, i| scalar_case(i)),
            oracle: o_fields,
            required: vec!["needs-escaping", "typed"],
            complete: true,
        }),
        Box::new(Enumerated {
            name: "every-ascii-pair-in-every-position".into(),
            total: Box::new(|_| 128 * 128 * 5),
            make: Box::new(|_, i| pair_case(i)),
            oracle: o_fields,
            required: vec!["needs-escaping"],
            complete: true,
        }),
        Box::new(Enumerated {
            name: "every-ascii-pair-at-every-offset-inside-a-run".into(),
            total: Box::new(|_| 128 * 128 * 8 * 5),
            make: Box::new(|_, i| pair_in_run_case(i)),
            oracle: o_fields,
            required: vec!["needs-escaping"],
            complete: true,
        }),
        Box::new(Random {
            name: "random-fields".into(),
            quick: 200_000,
            thorough: 8_000_000,
            strategy: Box::new(|_| gfields()),
            oracle: o_fields,
            required: vec!["needs-escaping", "typed", "build-refused"],
        }),
        Box::new(Random {
            name: "parsed-values".into(),
            quick: 100_000,
            thorough: 4_000_000,
            strategy: Box::new(|_: Tier| gspelled()),
            oracle: o_parsed,
            required: vec!["parsed-value"],
        }),
    ]
}

pub fn prop() -> Prop {
    Prop {
        id: "C03",
        sections,
        rule: "PURL values built by direct assignment of the public parts (every Unicode scalar value alone and as a.c.b in \
               all five component positions at once, for a String type and for the seven package types: complete; every \
               ASCII pair in each position: complete; random text in all fields with random type strings) and values \
               parsed from generated spellings. Oracle: to_string() == independent renderer fed from the accessors (escape \
               table of the statement as explicit byte predicates, upper-case hex, sorted qualifiers), output is bytes \
               0x21..0x7E, starts with pkg:, at most one '#', one '?' before it, one '@' in the path, lower-case type. \
               Non-trivial = at least one byte needs escaping or an optional component is present; distinct by hash of \
               (type parameter, accessors).",
        assumptions: &[
            "qualifier keys cannot contain characters that need escaping, so key escaping is unobservable",
            "the renderer is the harness's reading of the statement's escape table (DESIGN.md 2.2)",
        ],
        extra: None,
    }
}
