//! C01 - parse -> format -> parse is a fixpoint.

use proptest::prelude::*;
use proptest::sample::select;
use serde::{Deserialize, Serialize};
use serde_json::json;

use crate::api::{observe, parse, text, ISmall, IStr, ITyped, ParseInst};
use crate::engine::{Enumerated, Listed, Random, Section, Stats, Tier};
use crate::fault::{inject, FaultCase, KINDS};
use crate::gens::{corpus, gany_string, gcorpus_mut, gsoup, strata, strata_make, strata_total};
use crate::props::Prop;
use crate::spell::{gchoices, gtuple, spell, Tuple};

#[derive(Clone, Debug, Serialize, Deserialize)]
pub struct SpelledCase {
    pub tuple: Tuple,
    pub choices: Vec<u8>,
}

pub fn gspelled() -> BoxedStrategy<SpelledCase> {
    (prop_oneof![gtuple(false), gtuple(true)], gchoices())
        .prop_map(|(tuple, choices)| SpelledCase { tuple, choices })
        .boxed()
}

pub fn gfault() -> BoxedStrategy<FaultCase> {
    (prop_oneof![gtuple(false), gtuple(true)], gchoices(), select(KINDS), proptest::collection::vec(any::<u8>(), 0..=12))
        .prop_map(|(tuple, choices, kind, fchoices)| FaultCase { tuple, choices, kind: kind.to_string(), fchoices })
        .boxed()
}

fn rt<I: ParseInst>(s: &str, st: &mut Stats) -> Result<(), String> {
    // a panic while parsing `s` is C06's business; here it means "not accepted"
    let Ok(Ok(p)) = parse::<I>(s) else { return Ok(()) };
    st.class("accepted");
    let c = text(&p).map_err(|m| format!("[{}] to_string() of the PURL parsed from {s:?} panicked: {m}", I::NAME))?;
    let q = match parse::<I>(&c) {
        Err(m) => return Err(format!("[{}] parsing the canonical string {c:?} (of accepted {s:?}) panicked: {m}", I::NAME)),
        Ok(Err(k)) => {
            return Err(format!("[{}] {s:?} is accepted and prints {c:?}, which is refused with {k}", I::NAME))
        },
        Ok(Ok(q)) => q,
    };
    if q != p {
        return Err(format!(
            "[{}] {s:?} prints {c:?}, which parses to a different PURL: {:?} vs {:?}",
            I::NAME,
            observe(&p),
            observe(&q)
        ));
    }
    let c2 = text(&q).map_err(|m| format!("[{}] to_string() of the re-parsed {c:?} panicked: {m}", I::NAME))?;
    if c2 != c {
        return Err(format!("[{}] {s:?} prints {c:?}, which re-prints as {c2:?}", I::NAME));
    }
    if c != s || c.contains('%') {
        st.nontrivial(&(I::NAME, c.as_str()), || json!({ "inst": I::NAME, "input": s, "canonical": c }));
    }
    if !I::TYPED && I::NAME == "String" {
        let o = observe(&p);
        let sep = |t: &str| t.contains(['@', '?', '#', '/', '%']);
        st.class_if(o.ns.as_deref().map(sep).unwrap_or(false) && c.contains('%'), "namespace-with-escaped-separator");
        st.class_if(o.name.contains(['@', '?', '#', '/', '%']), "name-with-escaped-separator");
        st.class_if(o.version.as_deref().map(|v| v.contains(['@', '?', '#', '%'])).unwrap_or(false), "version-with-escaped-separator");
        st.class_if(o.subpath.as_deref().map(|v| v.contains(['@', '?', '#', '%'])).unwrap_or(false), "subpath-with-escaped-separator");
        for (k, v) in &o.quals {
            st.class_if(v.contains('&'), "qualifier-value-with-&");
            st.class_if(v.contains('='), "qualifier-value-with-=");
            st.class_if(v.contains(['#', '?', '%', '+']), "qualifier-value-with-escaped-separator");
            st.class_if(v.chars().any(|c| c.is_control()), "qualifier-value-with-control");
            st.class_if(!v.is_ascii(), "qualifier-value-with-non-ascii");
            st.class_if(k == "checksum" && v.contains(','), "multi-algorithm-checksum");
        }
    }
    Ok(())
}

pub fn roundtrip_all(s: &str, st: &mut Stats) -> Result<(), String> {
    rt::<IStr>(s, st)?;
    rt::<ISmall>(s, st)?;
    rt::<ITyped>(s, st)
}

fn o_string(s: &String, st: &mut Stats) -> Result<(), String> {
    roundtrip_all(s, st)
}

fn o_spelled(c: &SpelledCase, st: &mut Stats) -> Result<(), String> {
    let s = spell(&c.tuple, &c.choices).assemble();
    roundtrip_all(&s, st)
}

fn o_fault(c: &FaultCase, st: &mut Stats) -> Result<(), String> {
    match inject(c) {
        Some(f) => roundtrip_all(&f.text, st),
        None => Ok(()),
    }
}

fn fuzz_seed_cases(target: &'static str) -> Vec<crate::fuzzrun::FuzzInput> {
    let root = std::path::PathBuf::from(std::env::var("VERIF_ROOT").unwrap_or_else(|_| "/verif".into()));
    crate::fuzzrun::seed_corpus(&root, target, "C01")
}

fn extra(ctx: &mut crate::engine::Ctx) -> serde_json::Value {
    crate::fuzzrun::campaign(ctx, "fz_roundtrip", "fuzz-inputs:fz_roundtrip", 6_400_000, 4096)
}

fn o_hist(h: &crate::history::Hist<SpelledCase>, st: &mut Stats) -> Result<(), String> {
    let s = spell(&h.inner.tuple, &h.inner.choices).assemble();
    crate::history::judge(h, &s, o_spelled, st)
}

fn o_session(s: &crate::history::Session<String>, st: &mut Stats) -> Result<(), String> {
    crate::history::judge_session(s, o_string, st)
}

pub fn sections() -> Vec<Box<dyn Section>> {
    vec![
        Box::new(Random {
            name: "sessions-of-strings".into(),
            quick: 60,
            thorough: 2000,
            strategy: Box::new(|_| crate::history::gsession(prop_oneof![3 => gspelled().prop_map(|c| spell(&c.tuple, &c.choices).assemble()), 2 => gsoup(), 1 => gcorpus_mut(), 2 => gfault().prop_map(|f| inject(&f).map(|x| x.text).unwrap_or_default())].boxed())),
            oracle: o_session,
            required: vec!["judged inside a session", "session of 1000 or more cases"],
        }),
        Box::new(Random {
            name: "spelled-after-a-prelude".into(),
            quick: 16_000,
            thorough: 400_000,
            strategy: Box::new(|_| crate::history::ghist(gspelled())),
            oracle: o_hist,
            required: vec!["accepted"],
        }),
        Box::new(Listed {
            name: "fuzz-inputs:fz_roundtrip".into(),
            cases: Box::new(|_| fuzz_seed_cases("fz_roundtrip")),
            oracle: crate::fuzzrun::oracle,
        }),
        Box::new(Listed { name: "corpus".into(), cases: Box::new(|_| corpus().into_iter().map(str::to_string).collect()), oracle: o_string }),
        Box::new(Random {
            name: "spelled".into(),
            quick: 400_000,
            thorough: 12_000_000,
            strategy: Box::new(|_| gspelled()),
            oracle: o_spelled,
            required: vec![
                "accepted",
                "qualifier-value-with-&",
                "qualifier-value-with-=",
                "qualifier-value-with-control",
                "qualifier-value-with-non-ascii",
                "multi-algorithm-checksum",
                "name-with-escaped-separator",
                "namespace-with-escaped-separator",
                "version-with-escaped-separator",
                "subpath-with-escaped-separator",
            ],
        }),
        Box::new(Random {
            name: "faulted".into(),
            quick: 60_000,
            thorough: 2_000_000,
            strategy: Box::new(|_| gfault()),
            oracle: o_fault,
            required: vec![],
        }),
        Box::new(Random {
            name: "soup".into(),
            quick: 150_000,
            thorough: 4_000_000,
            strategy: Box::new(|_| gsoup()),
            oracle: o_string,
            required: vec!["accepted"],
        }),
        Box::new(Random {
            name: "any-string".into(),
            quick: 30_000,
            thorough: 1_000_000,
            strategy: Box::new(|_| gany_string()),
            oracle: o_string,
            required: vec![],
        }),
        Box::new(Random {
            name: "corpus-mutations".into(),
            quick: 100_000,
            thorough: 3_000_000,
            strategy: Box::new(|_| gcorpus_mut()),
            oracle: o_string,
            required: vec!["accepted"],
        }),
        Box::new(Enumerated {
            name: "token-language".into(),
            total: Box::new(|t: Tier| strata_total(&strata(t.pick(4, 5), t.pick(5, 6)))),
            make: Box::new(|t: Tier, i| strata_make(&strata(t.pick(4, 5), t.pick(5, 6)), i)),
            oracle: o_string,
            required: vec!["accepted"],
            complete: true,
        }),
    ]
}

pub fn prop() -> Prop {
    Prop {
        id: "C01",
        sections,
        rule: "Strings: legal spellings of generated component tuples (G-spell), single-fault spellings, token soup, arbitrary \
               strings, mutated conformance strings and, exhaustively, the bounded token language; each parsed as \
               GenericPurl<String>, GenericPurl<SmallString> and Purl. Oracle: accepted => canonical string accepted, equal \
               PURL, identical string. Non-trivial = accepted AND (canonical string differs from the input OR contains a \
               percent escape); distinct by hash of (instantiation, canonical string).",
        assumptions: &[
            "nothing is assumed about which strings are accepted",
            "a panic while parsing the original input is left to C06 (counts as not accepted here)",
            "thorough tier: libFuzzer target fz_roundtrip (16 jobs, -runs fixed, half seeded from corpus/fuzz-seed, half from an empty corpus); an artefact counts only if the deterministic in-process oracle confirms it",
        ],
        extra: Some(extra),
    }
}
