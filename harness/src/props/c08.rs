//! C08 - package-type rules: pypi and nuget names, maven namespace, others untouched.

use proptest::prelude::*;
use proptest::sample::select;
use serde::{Deserialize, Serialize};
use serde_json::json;

use crate::api::{known_type_index, observe, parse, text, IStr, ITyped};
use crate::buildprog::{run, Op, Outcome, Program};
use crate::chars::{gtext, gtext1, KNOWN_TYPES};
use crate::engine::{Enumerated, Random, Section, Stats, Tier};
use crate::gens::{gcorpus_mut, gsoup};
use crate::model::{self, name_rule};
use crate::props::c01::{gspelled, SpelledCase};
use crate::props::c10::{name_from_index, names_total, NameCase, NAME_ALPHABET};
use crate::props::Prop;
use crate::spell::{spell, spell_plain, Tuple};

/// Typed vs type-agnostic parse of the same string.
pub fn differential(s: &str, st: &mut Stats) -> Result<(), String> {
    let g = match parse::<IStr>(s) {
        Err(_) => return Ok(()),
        Ok(g) => g,
    };
    let t = match parse::<ITyped>(s) {
        Err(m) => return Err(format!("Purl::from_str({s:?}) panicked: {m}")),
        Ok(t) => t,
    };
    match (g, t) {
        (Err(k), Ok(p)) => Err(format!("{s:?} is refused by the type-agnostic parser ({k}) but accepted by the typed one: {:?}", observe(&p))),
        (Err(k), Err(tk)) => {
            // the type-agnostic defect must be reported (wrapped); an unknown type may be reported instead
            // (the maven namespace rule runs before the generic name / checksum checks of build())
            let maven_first = tk == "Package::MissingRequiredField(namespace)"
                && (k == "MissingRequiredField(name)" || k == "InvalidQualifier");
            if tk == format!("Parse({k})") || tk == "Package::UnsupportedType" || maven_first {
                Ok(())
            } else {
                Err(format!("{s:?}: type-agnostic error {k}, typed error {tk}"))
            }
        },
        (Ok(gp), t) => {
            let go = observe(&gp);
            match known_type_index(&go.ty) {
                None => {
                    st.class("unknown-well-formed-type");
                    match t {
                        Err(k) if k == "Package::UnsupportedType" => {
                            st.nontrivial(&("unknown", go.ty.as_str(), go.name.as_str()), || json!({ "string": s, "typed": k }));
                            Ok(())
                        },
                        other => Err(format!(
                            "{s:?} has the well-formed unknown type {:?} and is accepted type-agnostically, but the typed PURL gives {:?}",
                            go.ty,
                            other.map(|p| observe(&p))
                        )),
                    }
                },
                Some(_) => {
                    let maven_no_ns = go.ty == "maven" && go.ns.is_none();
                    match t {
                        Err(k) => {
                            if maven_no_ns && k == "Package::MissingRequiredField(namespace)" {
                                st.class("maven-without-namespace-refused");
                                st.nontrivial(&("maven", s), || json!({ "string": s, "typed": k }));
                                Ok(())
                            } else {
                                Err(format!("{s:?} is accepted type-agnostically ({go:?}) but the typed PURL refuses it with {k}"))
                            }
                        },
                        Ok(tp) => {
                            if maven_no_ns {
                                return Err(format!("{s:?}: maven without namespace accepted by the typed PURL"));
                            }
                            let to = observe(&tp);
                            let want_name = name_rule(&go.ty, &go.name);
                            if to.ty != go.ty || to.ns != go.ns || to.version != go.version || to.quals != go.quals || to.subpath != go.subpath {
                                return Err(format!("{s:?}: typed {to:?} differs from type-agnostic {go:?} outside the name"));
                            }
                            if to.name != want_name {
                                return Err(format!("{s:?}: typed name {:?}, the {} rule gives {want_name:?} for {:?}", to.name, go.ty, go.name));
                            }
                            st.class("typed-accepts");
                            st.class_if(want_name != go.name, "name-changed-by-rule");
                            st.class_if(go.ty == "maven", "maven-with-namespace");
                            if want_name != go.name || go.ty == "maven" {
                                st.nontrivial(&(go.ty.as_str(), go.name.as_str()), || json!({ "string": s, "name": to.name }));
                            }
                            Ok(())
                        },
                    }
                },
            }
        },
    }
}

/// Both entry points on (type, name): parser on the plain spelling, builder with the same fields.
fn both_entry_points(ty: &str, name: &str, st: &mut Stats) -> Result<(), String> {
    let want = name_rule(ty, name);
    let ns: Vec<String> = if ty == "maven" { vec!["g".into()] } else { vec![] };
    let tuple = Tuple { ty: ty.into(), ns: ns.clone(), name: name.into(), version: None, quals: vec![], checksum: vec![], subpath: vec![] };
    let s = spell_plain(&tuple);
    match parse::<ITyped>(&s) {
        Err(m) => return Err(format!("Purl::from_str({s:?}) panicked: {m}")),
        Ok(Err(k)) => return Err(format!("Purl::from_str({s:?}) refused with {k}")),
        Ok(Ok(p)) => {
            let o = observe(&p);
            if o.name != want {
                return Err(format!("parser: {ty} name {name:?} comes out as {:?}, the rule gives {want:?}", o.name));
            }
        },
    }
    let mut ops = Vec::new();
    if ty == "maven" {
        ops.push(Op::Namespace("g".into()));
    }
    let prog = Program { ty: ty.into(), name: name.into(), ops };
    match run::<ITyped>(&prog).0 {
        Outcome::Built(o, _) => {
            if o.name != want {
                return Err(format!("builder: {ty} name {name:?} comes out as {:?}, the rule gives {want:?}", o.name));
            }
        },
        other => return Err(format!("builder: {prog:?} gives {other:?}")),
    }
    st.class_if(want != name, "name-changed-by-rule");
    st.class_if(want == name, "name-unchanged");
    if want != name || ty == "maven" {
        st.nontrivial(&(ty, name), || json!({ "type": ty, "name": name, "normalised": want }));
    }
    Ok(())
}

fn o_name(c: &NameCase, st: &mut Stats) -> Result<(), String> {
    if known_type_index(&c.ty).is_none() || c.name.is_empty() {
        return Err("bad replay case".into());
    }
    both_entry_points(&c.ty, &c.name, st)
}

fn o_spelled(c: &SpelledCase, st: &mut Stats) -> Result<(), String> {
    differential(&spell(&c.tuple, &c.choices).assemble(), st)
}

fn o_string(s: &String, st: &mut Stats) -> Result<(), String> {
    differential(s, st)
}

/// Builder fields for a known type; compared with the parser on the printed spelling of the same
/// fields (printed through the type-agnostic PURL, which has no type rule).
#[derive(Clone, Debug, Serialize, Deserialize)]
pub struct FieldCase {
    pub ty: String,
    pub ns: String,
    pub name: String,
    pub version: String,
}

fn o_fields(c: &FieldCase, st: &mut Stats) -> Result<(), String> {
    let ops = vec![Op::Namespace(c.ns.clone()), Op::Version(c.version.clone())];
    let prog = Program { ty: c.ty.clone(), name: c.name.clone(), ops };
    let typed = run::<ITyped>(&prog).0;
    let generic = run::<IStr>(&prog).0;
    let Outcome::Built(_, printed) = &generic else {
        // nothing to print: the only generic reason is an empty name, which the typed builder must report too
        return match (&generic, &typed) {
            (Outcome::BuildErr(k), Outcome::BuildErr(tk)) if *tk == format!("Parse({k})") || tk == "Package::MissingRequiredField(namespace)" => Ok(()),
            (g, t) => Err(format!("{prog:?}: type-agnostic builder gives {g:?}, typed builder gives {t:?}")),
        };
    };
    let parsed = match parse::<ITyped>(printed) {
        Err(m) => return Err(format!("Purl::from_str({printed:?}) panicked: {m}")),
        Ok(r) => r,
    };
    match (&typed, parsed) {
        (Outcome::Built(o, t), Ok(p)) => {
            let po = observe(&p);
            let same = o.name == po.name
                && o.version == po.version
                && model::opt_ns_segments(o.ns.as_deref()) == model::opt_ns_segments(po.ns.as_deref());
            if !same {
                return Err(format!("builder gives {o:?} ({t:?}) but the parser gives {po:?} for the printed spelling {printed:?}"));
            }
            let pt = text(&p).unwrap_or_default();
            let _ = pt;
            st.class("builder-and-parser-accept");
        },
        (Outcome::BuildErr(k), Err(pk)) => {
            if *k != pk {
                return Err(format!("{prog:?}: builder refuses with {k}, parser refuses {printed:?} with {pk}"));
            }
            st.class("builder-and-parser-refuse");
            st.class_if(k == "Package::MissingRequiredField(namespace)", "maven-namespace-refused-by-both");
        },
        (b, p) => {
            return Err(format!(
                "the builder and the parser disagree: {prog:?} gives {b:?}, Purl::from_str({printed:?}) gives {:?}",
                p.map(|p| observe(&p))
            ))
        },
    }
    let want = name_rule(&c.ty, &c.name);
    if want != c.name || c.ty == "maven" {
        st.nontrivial(&(c.ty.as_str(), c.name.as_str(), c.ns.as_str()), || json!({ "fields": c, "printed": printed }));
    }
    Ok(())
}

fn gfields() -> BoxedStrategy<FieldCase> {
    (
        select(KNOWN_TYPES),
        prop_oneof![
            3 => select(&["", "/", "//", "a//b", "a", "a/b", "/a/", ".", "..", "a/../b", " ", "%2F", "g"][..]).prop_map(str::to_string),
            1 => gtext(0),
        ],
        prop_oneof![4 => gtext1(), 1 => Just(String::new())],
        prop_oneof![1 => Just(String::new()), 1 => gtext(0)],
    )
        .prop_map(|(ty, ns, name, version)| FieldCase { ty: ty.to_string(), ns, name, version })
        .boxed()
}

fn o_hist(h: &crate::history::Hist<NameCase>, st: &mut Stats) -> Result<(), String> {
    let text = format!("pkg:{}/g/{}", h.inner.ty, h.inner.name);
    crate::history::judge(h, &text, o_name, st)
}

/// Every scalar value next to a separator: the pypi rule takes another path when the name has one.
fn o_name_in_context(c: &NameCase, st: &mut Stats) -> Result<(), String> {
    o_name(c, st)
}

/// Two names of one type normalised directly after one another on one thread, for every ordered pair
/// of names of 1 and 2 characters over letters of both cases, digits, the three separators and three
/// case-interesting letters (see C13's pairs of types: a memo keyed by something weaker than the name
/// shows on the second call).
#[derive(Clone, Debug, Serialize, Deserialize)]
pub struct NamePair {
    pub ty: String,
    pub first: String,
    pub second: String,
}

const PAIR_NAME_ALPHABET: &[char] = &[
    'a', 'b', 'c', 'k', 'm', 'n', 's', 'z', 'A', 'B', 'C', 'K', 'M', 'N', 'S', 'Z', '0', '1', '9', '-', '_', '.', '\u{c9}', '\u{3a3}', '\u{212a}',
];

fn name_pair(idx: u64) -> Option<NamePair> {
    let k = PAIR_NAME_ALPHABET.len() as u64;
    let n = k + k * k;
    let per_type = n * n;
    let ty = ["pypi", "nuget"][(idx / per_type) as usize % 2];
    let i = idx % per_type;
    let name = |mut j: u64| -> String {
        if j < k {
            PAIR_NAME_ALPHABET[j as usize].to_string()
        } else {
            j -= k;
            [PAIR_NAME_ALPHABET[(j % k) as usize], PAIR_NAME_ALPHABET[(j / k) as usize]].iter().collect()
        }
    };
    Some(NamePair { ty: ty.into(), first: name(i / n), second: name(i % n) })
}

fn o_name_pair(c: &NamePair, st: &mut Stats) -> Result<(), String> {
    if known_type_index(&c.ty).is_none() || c.first.is_empty() || c.second.is_empty() {
        return Err("bad replay case".into());
    }
    let first = Program { ty: c.ty.clone(), name: c.first.clone(), ops: vec![] };
    let _ = run::<ITyped>(&first).0;
    // ... and, when both names are the same, the same name under the other rule first (nuget before pypi and
    // the other way round): what one rule remembers must not be taken for the result of the other
    if c.first == c.second {
        let other = Program { ty: if c.ty == "pypi" { "nuget".into() } else { "pypi".into() }, name: c.first.clone(), ops: vec![] };
        let _ = run::<ITyped>(&other).0;
    }
    let _ = crate::api::parse::<ITyped>(&format!("pkg:{}/{}", c.ty, c.first.bytes().map(|b| format!("%{b:02X}")).collect::<String>()));
    o_name(&NameCase { ty: c.ty.clone(), name: c.second.clone() }, st).map_err(|m| format!("directly after the name {:?}: {m}", c.first))?;
    st.class("consecutive-pair");
    Ok(())
}

pub fn sections() -> Vec<Box<dyn Section>> {
    vec![
        Box::new(Random {
            name: "names-after-a-prelude".into(),
            quick: 16_000,
            thorough: 400_000,
            strategy: Box::new(|_| {
                crate::history::ghist(
                    (select(&["pypi", "pypi", "nuget", "npm"][..]), prop_oneof![3 => gtext1(), 1 => select(&["straße_utils", "STRASSE_UTILS", "x.ς", "x.σ", "ſ-a", "S-a", "µ_1", "Μ_1"][..]).prop_map(str::to_string)])
                        .prop_map(|(ty, name)| NameCase { ty: ty.into(), name })
                        .boxed(),
                )
            }),
            oracle: o_hist,
            required: vec!["name-changed-by-rule"],
        }),
        Box::new(Enumerated {
            name: "every-scalar-value-next-to-a-separator".into(),
            total: Box::new(|_| 0x110000 * 7),
            make: Box::new(|_, i| {
                let c = char::from_u32((i / 7) as u32)?;
                let (ty, name) = match i % 7 {
                    0 => ("pypi", format!("{c}_a")),
                    1 => ("pypi", format!("a.{c}")),
                    2 => ("pypi", format!("A-{c}-B")),
                    3 => ("nuget", format!("A{c}")),
                    // next to a non-ASCII letter that changes when lower-cased (the slow path of the lower-casing)
                    4 => ("nuget", format!("\u{c9}{c}")),
                    5 => ("pypi", format!("{c}\u{c9}")),
                    _ => ("pypi", format!("\u{c9}.{c}")),
                };
                Some(NameCase { ty: ty.into(), name })
            }),
            oracle: o_name_in_context,
            required: vec!["name-changed-by-rule"],
            complete: true,
        }),
        Box::new(Enumerated {
            name: "names-near-the-inline-capacity".into(),
            total: Box::new(|_| 2 * crate::chars::names_near_inline_capacity().len() as u64),
            make: Box::new(|_, i| {
                let v = crate::chars::names_near_inline_capacity();
                Some(NameCase { ty: ["pypi", "nuget"][(i as usize) / v.len()].into(), name: v[(i as usize) % v.len()].clone() })
            }),
            oracle: o_name,
            required: vec!["name-changed-by-rule"],
            complete: true,
        }),
        Box::new(Enumerated {
            name: "consecutive-names-every-pair-of-short-names".into(),
            total: Box::new(|_| {
                let k = PAIR_NAME_ALPHABET.len() as u64;
                2 * (k + k * k) * (k + k * k)
            }),
            make: Box::new(|_, i| name_pair(i)),
            oracle: o_name_pair,
            required: vec!["consecutive-pair"],
            complete: true,
        }),
        Box::new(Enumerated {
            name: "every-scalar-value-as-name".into(),
            total: Box::new(|_| 0x110000 * 7),
            make: Box::new(|_, i| {
                let c = char::from_u32((i / 7) as u32)?;
                Some(NameCase { ty: KNOWN_TYPES[(i % 7) as usize].into(), name: c.to_string() })
            }),
            oracle: o_name,
            required: vec!["name-changed-by-rule", "name-unchanged"],
            complete: true,
        }),
        Box::new(Enumerated {
            name: "short-names-over-length-changing-case-letters".into(),
            total: Box::new(|t: Tier| 3 * names_total(crate::chars::length_changing_alphabet(), t.pick(3, 4))),
            make: Box::new(|t: Tier, i| {
                let a = crate::chars::length_changing_alphabet();
                let n = names_total(a, t.pick(3, 4));
                Some(NameCase { ty: ["nuget", "pypi", "npm"][(i / n) as usize].into(), name: name_from_index(a, t.pick(3, 4), i % n) })
            }),
            oracle: o_name,
            required: vec!["name-changed-by-rule"],
            complete: true,
        }),
        Box::new(Enumerated {
            name: "short-names-exhaustive".into(),
            total: Box::new(|t: Tier| 7 * names_total(NAME_ALPHABET, t.pick(5, 7))),
            make: Box::new(|t: Tier, i| {
                let n = names_total(NAME_ALPHABET, t.pick(5, 7));
                Some(NameCase { ty: KNOWN_TYPES[(i / n) as usize].into(), name: name_from_index(NAME_ALPHABET, t.pick(5, 7), i % n) })
            }),
            oracle: o_name,
            required: vec!["name-changed-by-rule", "name-unchanged"],
            complete: true,
        }),
        Box::new(Random {
            name: "random-names".into(),
            quick: 100_000,
            thorough: 3_000_000,
            strategy: Box::new(|_| (select(KNOWN_TYPES), gtext1()).prop_map(|(ty, name)| NameCase { ty: ty.into(), name }).boxed()),
            oracle: o_name,
            required: vec!["name-changed-by-rule", "name-unchanged"],
        }),
        Box::new(Random {
            name: "typed-vs-type-agnostic-spelled".into(),
            quick: 200_000,
            thorough: 6_000_000,
            strategy: Box::new(|_| gspelled()),
            oracle: o_spelled,
            required: vec!["typed-accepts", "name-changed-by-rule", "maven-with-namespace", "unknown-well-formed-type"],
        }),
        Box::new(Random {
            name: "typed-vs-type-agnostic-soup".into(),
            quick: 200_000,
            thorough: 6_000_000,
            strategy: Box::new(|_| prop_oneof![gsoup(), gcorpus_mut()].boxed()),
            oracle: o_string,
            required: vec!["typed-accepts", "maven-without-namespace-refused", "unknown-well-formed-type"],
        }),
        Box::new(Random {
            name: "builder-vs-parser".into(),
            quick: 150_000,
            thorough: 5_000_000,
            strategy: Box::new(|_| gfields()),
            oracle: o_fields,
            required: vec!["builder-and-parser-accept", "builder-and-parser-refuse", "maven-namespace-refused-by-both"],
        }),
    ]
}

pub fn prop() -> Prop {
    Prop {
        id: "C08",
        sections,
        rule: "Names: every single Unicode scalar value x seven types (complete), every string up to length 5 / 7 over {a, A, \
               1, -, _, ., E-acute, titlecase dz} x seven types (complete), random text; both entry points (Purl::from_str \
               on a spelling, PurlBuilder). Oracles: reference name rule (pypi = char-wise lower-casing then collapse runs \
               of -_. to '-', nuget = char-wise lower-casing, others unchanged); differential Purl::from_str vs \
               GenericPurl::<String>::from_str on every generated string (same namespace, version, qualifiers, subpath; \
               name = rule; maven refused iff no namespace; unknown well-formed type => UnsupportedType whenever the \
               type-agnostic parse accepts); builder vs parser on the printed spelling of the same fields incl. \
               namespaces such as '', '/', '//', 'a//b'. Non-trivial = the rule changes the name, or the type is maven, or \
               the type is unknown; distinct by hash of (type, name[, namespace]).",
        assumptions: &["the reference case mapping is Rust's char-wise to_lowercase, not str::to_lowercase (final-sigma rule)"],
        extra: None,
    }
}
