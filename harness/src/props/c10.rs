//! C10 - re-building an existing PURL is the identity.

use proptest::prelude::*;
use purl::GenericPurl;
use serde::{Deserialize, Serialize};
use serde_json::json;

use crate::api::{observe, parse, text, ICowB, ICowO, ISmall, IStr, ITyped, Inst, ParseInst};
use crate::buildprog::{gprogram, run, Program};
use crate::engine::{guard, Enumerated, Random, Section, Stats, Tier};
use crate::gens::{gcorpus_mut, gsoup};
use crate::props::c01::{gspelled, SpelledCase};
use crate::props::c04::ProgramCase;
use crate::props::Prop;
use crate::spell::spell;

pub fn rebuild<I: Inst>(p: &GenericPurl<I::T>, origin: &str, st: &mut Stats) -> Result<(), String> {
    let t = text(p).map_err(|m| format!("[{}] {origin}: to_string() panicked: {m}", I::NAME))?;
    let mut cur = p.clone();
    for round in 1..=2 {
        let c = cur.clone();
        let r = guard(move || c.into_builder().build().map_err(|e| I::err_kind(&e)));
        let q = match r {
            Err(m) => return Err(format!("[{}] {origin}: into_builder().build() panicked (round {round}): {m}", I::NAME)),
            Ok(Err(k)) => return Err(format!("[{}] {origin}: re-building {t:?} fails with {k} (round {round})", I::NAME)),
            Ok(Ok(q)) => q,
        };
        if q != *p {
            return Err(format!("[{}] {origin}: re-building {t:?} gives a different PURL: {:?} vs {:?} (round {round})", I::NAME, observe(p), observe(&q)));
        }
        let t2 = text(&q).map_err(|m| format!("[{}] {origin}: to_string() of the re-built PURL panicked: {m}", I::NAME))?;
        if t2 != t {
            return Err(format!("[{}] {origin}: re-building {t:?} prints {t2:?} (round {round})", I::NAME));
        }
        cur = q;
    }
    let o = observe(p);
    let rule_changed = I::TYPED && (o.ty == "pypi" || o.ty == "nuget");
    let has_ck = o.quals.iter().any(|(k, _)| k == "checksum");
    st.class("rebuilt");
    st.class_if(rule_changed, "pypi-or-nuget-value");
    st.class_if(has_ck, "value-with-checksum");
    if rule_changed || has_ck || !t.is_ascii() || t.contains('%') || !o.quals.is_empty() {
        st.nontrivial(&(I::NAME, t.as_str()), || json!({ "inst": I::NAME, "string": t, "origin": origin }));
    }
    Ok(())
}

fn from_parse<I: ParseInst>(s: &str, st: &mut Stats) -> Result<(), String> {
    let Ok(Ok(p)) = parse::<I>(s) else { return Ok(()) };
    rebuild::<I>(&p, &format!("parsed from {s:?}"), st)
}

pub fn parse_all(s: &str, st: &mut Stats) -> Result<(), String> {
    from_parse::<IStr>(s, st)?;
    from_parse::<ISmall>(s, st)?;
    from_parse::<ITyped>(s, st)
}

fn o_spelled(c: &SpelledCase, st: &mut Stats) -> Result<(), String> {
    parse_all(&spell(&c.tuple, &c.choices).assemble(), st)
}

fn o_string(s: &String, st: &mut Stats) -> Result<(), String> {
    parse_all(s, st)
}

fn from_program<I: Inst>(p: &Program, st: &mut Stats) -> Result<(), String> {
    let (_, v) = run::<I>(p);
    match v {
        Some(v) => rebuild::<I>(&v, &format!("built by {p:?}"), st),
        None => Ok(()),
    }
}

fn o_program(c: &ProgramCase, st: &mut Stats) -> Result<(), String> {
    if c.typed {
        from_program::<ITyped>(&c.program, st)
    } else {
        from_program::<IStr>(&c.program, st)?;
        from_program::<ICowB>(&c.program, st)?;
        from_program::<ICowO>(&c.program, st)?;
        from_program::<ISmall>(&c.program, st)
    }
}

pub const NAME_ALPHABET: &[char] = &['a', 'A', '1', '-', '_', '.', 'É', 'ǅ', 'é', 'Σ', '\u{212A}'];

#[derive(Clone, Debug, Serialize, Deserialize)]
pub struct NameCase {
    pub ty: String,
    pub name: String,
}

pub fn name_from_index(alphabet: &[char], max: u32, mut idx: u64) -> String {
    let k = alphabet.len() as u64;
    let mut len = 1u32;
    loop {
        let n = k.pow(len);
        if idx < n || len >= max {
            break;
        }
        idx -= n;
        len += 1;
    }
    let mut s = String::new();
    for _ in 0..len {
        s.push(alphabet[(idx % k) as usize]);
        idx /= k;
    }
    s
}

pub fn names_total(alphabet: &[char], max: u32) -> u64 {
    let k = alphabet.len() as u64;
    (1..=max).map(|l| k.pow(l)).sum()
}

fn o_name(c: &NameCase, st: &mut Stats) -> Result<(), String> {
    let p = Program { ty: c.ty.clone(), name: c.name.clone(), ops: vec![] };
    from_program::<ITyped>(&p, st)
}

/// A session of typed builds over a small pool of names and the two types with a name rule; every value
/// is re-built at once (the usual check) and all of them once more at the end of the session, when the
/// library has seen every other name in between.
#[derive(Clone, Debug, Serialize, Deserialize)]
pub struct NameSession {
    pub names: Vec<String>,
    /// (index into names, 0 nuget / 1 pypi)
    pub steps: Vec<(u8, u8)>,
}

fn o_name_session(c: &NameSession, st: &mut Stats) -> Result<(), String> {
    if c.names.is_empty() {
        return Ok(());
    }
    let mut spawn_failed = false;
    let r = std::thread::scope(|scope| {
        let handle = std::thread::Builder::new().stack_size(1 << 20).spawn_scoped(scope, || -> Result<(), String> {
            let mut made = Vec::new();
            for (i, (n, t)) in c.steps.iter().enumerate() {
                let p = Program { ty: ["nuget", "pypi"][*t as usize % 2].into(), name: c.names[*n as usize % c.names.len()].clone(), ops: vec![] };
                let (_, v) = run::<ITyped>(&p);
                if let Some(v) = v {
                    rebuild::<ITyped>(&v, &format!("step {i} of a session, built by {p:?}"), st)?;
                    made.push((i, v));
                }
            }
            // in reverse order first (re-building them in the original order would re-create the history that
            // produced them), then in the original order
            for (i, v) in made.iter().rev().chain(made.iter()) {
                rebuild::<ITyped>(v, &format!("the value of step {i}, re-built at the end of a session of {} steps", c.steps.len()), st)?;
            }
            Ok(())
        });
        match handle {
            Ok(h) => h.join().map_err(|_| ()),
            Err(_) => {
                spawn_failed = true;
                Err(())
            },
        }
    });
    if spawn_failed {
        return Ok(());
    }
    match r {
        Ok(r) => {
            r?;
            st.class("name-session");
            Ok(())
        },
        Err(()) => Err("the oracle thread of a name session panicked".into()),
    }
}

pub fn sections() -> Vec<Box<dyn Section>> {
    vec![
        Box::new(Random {
            name: "parsed-spelled".into(),
            quick: 150_000,
            thorough: 5_000_000,
            strategy: Box::new(|_| gspelled()),
            oracle: o_spelled,
            required: vec!["rebuilt", "pypi-or-nuget-value", "value-with-checksum"],
        }),
        Box::new(Random {
            name: "parsed-soup".into(),
            quick: 100_000,
            thorough: 3_000_000,
            strategy: Box::new(|_| prop_oneof![gsoup(), gcorpus_mut()].boxed()),
            oracle: o_string,
            required: vec!["rebuilt"],
        }),
        Box::new(Random {
            name: "built-string-cow-smallstring".into(),
            quick: 100_000,
            thorough: 3_000_000,
            strategy: Box::new(|_| gprogram(false).prop_map(|program| ProgramCase { program, typed: false }).boxed()),
            oracle: o_program,
            required: vec!["rebuilt", "value-with-checksum"],
        }),
        Box::new(Random {
            name: "built-package-type".into(),
            quick: 100_000,
            thorough: 3_000_000,
            strategy: Box::new(|_| gprogram(true).prop_map(|program| ProgramCase { program, typed: true }).boxed()),
            oracle: o_program,
            required: vec!["rebuilt", "pypi-or-nuget-value", "value-with-checksum"],
        }),
        Box::new(Random {
            name: "name-sessions-rebuilt-at-the-end".into(),
            quick: 4_000,
            thorough: 150_000,
            strategy: Box::new(|_| {
                let name = prop_oneof![
                    3 => proptest::collection::vec(proptest::sample::select(NAME_ALPHABET), 1..=6).prop_map(|v| v.into_iter().collect::<String>()),
                    2 => proptest::sample::select(&["zope.interface", "Newtonsoft.Json", "a_b", "A-B", "x..y", "requests"][..]).prop_map(str::to_string),
                    1 => crate::chars::gtext1(),
                ];
                (proptest::collection::vec(name, 1..=4), proptest::collection::vec((0u8..4, 0u8..2), 2..=12)).prop_map(|(names, steps)| NameSession { names, steps }).boxed()
            }),
            oracle: o_name_session,
            required: vec!["name-session", "pypi-or-nuget-value"],
        }),
        Box::new(Enumerated {
            name: "every-scalar-value-next-to-a-separator".into(),
            total: Box::new(|_| 0x110000 * 3),
            make: Box::new(|_, i| {
                let c = char::from_u32((i / 3) as u32)?;
                let (ty, name) = match i % 3 {
                    0 => ("pypi", format!("{c}_a")),
                    1 => ("pypi", format!("A.{c}")),
                    _ => ("nuget", format!("A{c}b")),
                };
                Some(NameCase { ty: ty.into(), name })
            }),
            oracle: o_name,
            required: vec!["rebuilt", "pypi-or-nuget-value"],
            complete: true,
        }),
        Box::new(Enumerated {
            name: "short-names-over-length-changing-case-letters".into(),
            total: Box::new(|t: Tier| 2 * names_total(crate::chars::length_changing_alphabet(), t.pick(3, 4))),
            make: Box::new(|t: Tier, i| {
                let a = crate::chars::length_changing_alphabet();
                let n = names_total(a, t.pick(3, 4));
                Some(NameCase { ty: ["nuget", "pypi", "npm"][(i / n) as usize].into(), name: name_from_index(a, t.pick(3, 4), i % n) })
            }),
            oracle: o_name,
            required: vec!["rebuilt", "pypi-or-nuget-value"],
            complete: true,
        }),
        Box::new(Enumerated {
            // a checksum that names an algorithm twice, once with a letter and once with that letter's lower-case
            // form, for every letter that has one: whatever the parser makes of it (it should refuse), a value that
            // comes out must re-build to itself
            name: "checksum-with-an-algorithm-and-its-lower-case-form".into(),
            total: Box::new(|_| 0x110000 * 2),
            make: Box::new(|_, i| {
                let c = char::from_u32((i / 2) as u32)?;
                let lower: String = c.to_lowercase().collect();
                if lower == c.to_string() || c == ',' {
                    return None;
                }
                let enc = |s: &str| -> String { s.bytes().map(|b| format!("%{b:02X}")).collect() };
                let (a, b) = (enc(&format!("{c}x")), enc(&format!("{lower}x")));
                Some(if i % 2 == 0 { format!("pkg:generic/n?checksum={a}:00,{b}:11") } else { format!("pkg:npm/n@1?checksum=a:00,{b}:11,{a}:22#s") })
            }),
            oracle: o_string,
            required: vec![],
            complete: true,
        }),
        Box::new(Enumerated {
            name: "names-near-the-inline-capacity".into(),
            total: Box::new(|_| 2 * crate::chars::names_near_inline_capacity().len() as u64),
            make: Box::new(|_, i| {
                let v = crate::chars::names_near_inline_capacity();
                Some(NameCase { ty: ["pypi", "nuget"][(i as usize) / v.len()].into(), name: v[(i as usize) % v.len()].clone() })
            }),
            oracle: o_name,
            required: vec!["rebuilt", "pypi-or-nuget-value"],
            complete: true,
        }),
        Box::new(Enumerated {
            name: "pypi-nuget-names-exhaustive".into(),
            total: Box::new(|t: Tier| 2 * names_total(NAME_ALPHABET, t.pick(5, 7))),
            make: Box::new(|t: Tier, i| {
                let n = names_total(NAME_ALPHABET, t.pick(5, 7));
                let ty = if i < n { "pypi" } else { "nuget" };
                Some(NameCase { ty: ty.into(), name: name_from_index(NAME_ALPHABET, t.pick(5, 7), i % n) })
            }),
            oracle: o_name,
            required: vec!["rebuilt", "pypi-or-nuget-value"],
            complete: true,
        }),
    ]
}

pub fn prop() -> Prop {
    Prop {
        id: "C10",
        sections,
        rule: "Every Ok value of the parser (generated spellings, soup, mutated conformance strings; String, SmallString, \
               PackageType) and of builder programs (String, Cow::Borrowed, Cow::Owned, SmallString, PackageType), plus \
               every pypi / nuget name up to length 5 / 7 over {a, A, 1, -, _, ., E-acute, titlecase dz} (complete). \
               Oracle: p.clone().into_builder().build() == Ok(p) with the identical string, applied twice. Non-trivial = \
               value with a pypi/nuget type, a checksum, a qualifier, a percent escape or non-ASCII text in its string; \
               distinct by hash of (type parameter, string).",
        assumptions: &["PartialEq of GenericPurl is the equality meant by 'equal PURL' (its agreement with the string is C19)"],
        extra: None,
    }
}
