//! C19 - equality, hashing and ordering agree with the canonical string.

use std::cmp::Ordering;
use std::collections::hash_map::DefaultHasher;
use std::collections::{BTreeSet, HashSet};
use std::hash::{Hash, Hasher};

use proptest::prelude::*;
use purl::GenericPurl;
use serde::{Deserialize, Serialize};
use serde_json::json;

use crate::api::{parse, text, ICowB, ICowO, ISmall, IStr, ITyped, Inst, ParseInst};
use crate::chars::gchar;
use crate::engine::{Random, Section, Stats};
use crate::props::c03::{build_fields, Fields};
use crate::props::Prop;
use crate::spell::{gchoices, gtuple, spell, Tuple};

#[derive(Clone, Debug, Serialize, Deserialize)]
pub enum Mutation {
    /// nothing: two ways of making the same value
    Same,
    /// replace one character of one field (field index, position, new character)
    ChangeChar(u8, u16, char),
    /// flip the letter case of one character of one field
    FlipCase(u8, u16),
    /// namespace a/b + name c  ->  namespace a + name b/c
    SlashIntoName,
    /// name n + version 1@2  ->  name n@1 + version 2   (or the reverse when the name has the '@')
    AtIntoName,
    /// qualifiers k=a, l=c  ->  k="a&l=c"
    MergeQualifiers,
    /// last qualifier value v + subpath s  ->  value "v#s", no subpath
    HashIntoValue,
    /// name n + qualifiers  ->  name "n?k=v", no qualifiers
    QueryIntoName,
    /// absent vs insignificant: namespace "/" , subpath "." or "..", version unchanged
    Insignificant(u8),
    /// drop / add one optional field
    DropField(u8),
    /// move one character of a field to another position of the same field (same multiset of characters)
    MoveChar(u8, u16, u16),
    /// append one character to a field / drop its last character (one value a prefix of the other)
    Append(u8, char),
    /// replace the last character of one field by a neighbour of the same class (digit -> another
    /// digit, letter -> another letter): values that differ only at the very end of a long field
    BumpLast(u8),
}

#[derive(Clone, Debug, Serialize, Deserialize)]
pub struct PairCase {
    pub tuple: Tuple,
    pub mutation: Mutation,
    pub second: Option<Mutation>,
    pub spelling: Vec<u8>,
}

pub fn fields_of(t: &Tuple, typed: bool) -> Fields {
    let e = t.expected(false);
    Fields {
        ty: t.ty.clone(),
        typed,
        ns: e.ns.unwrap_or_default(),
        name: t.name.clone(),
        version: e.version.unwrap_or_default(),
        quals: e.quals,
        subpath: e.subpath.unwrap_or_default(),
    }
}

fn field_mut(f: &mut Fields, i: u8) -> &mut String {
    let n = 5 + f.quals.len() as u8 * 2;
    match i % n {
        0 => &mut f.ns,
        1 => &mut f.name,
        2 => &mut f.version,
        3 => &mut f.subpath,
        4 => &mut f.ty,
        j => {
            let q = ((j - 5) / 2) as usize;
            if (j - 5) % 2 == 0 {
                &mut f.quals[q].0
            } else {
                &mut f.quals[q].1
            }
        },
    }
}

pub fn mutate(f: &Fields, m: &Mutation) -> Fields {
    let mut g = f.clone();
    match m {
        Mutation::Same => {},
        Mutation::ChangeChar(i, pos, c) => {
            let s = field_mut(&mut g, *i);
            let mut cs: Vec<char> = s.chars().collect();
            if cs.is_empty() {
                cs.push(*c);
            } else {
                let p = (*pos as usize * cs.len()) >> 16;
                cs[p] = *c;
            }
            *s = cs.into_iter().collect();
        },
        Mutation::FlipCase(i, pos) => {
            let s = field_mut(&mut g, *i);
            let mut cs: Vec<char> = s.chars().collect();
            if !cs.is_empty() {
                let p = (*pos as usize * cs.len()) >> 16;
                let c = cs[p];
                cs[p] = if c.is_uppercase() { c.to_lowercase().next().unwrap_or(c) } else { c.to_uppercase().next().unwrap_or(c) };
            }
            *s = cs.into_iter().collect();
        },
        Mutation::SlashIntoName => {
            if let Some(i) = g.ns.rfind('/') {
                g.name = format!("{}/{}", &g.ns[i + 1..], g.name);
                g.ns.truncate(i);
            } else if !g.ns.is_empty() {
                g.name = format!("{}/{}", g.ns, g.name);
                g.ns.clear();
            } else {
                g.name = format!("x/{}", g.name);
            }
        },
        Mutation::AtIntoName => {
            if let Some(i) = g.name.find('@') {
                g.version = format!("{}@{}", &g.name[i + 1..], g.version);
                g.name.truncate(i);
            } else if let Some(i) = g.version.find('@') {
                g.name = format!("{}@{}", g.name, &g.version[..i]);
                g.version = g.version[i + 1..].to_string();
            } else {
                g.name = format!("{}@{}", g.name, g.version);
                g.version.clear();
            }
        },
        Mutation::MergeQualifiers => {
            if g.quals.len() >= 2 {
                let (k2, v2) = g.quals.remove(1);
                let v = format!("{}&{k2}={v2}", g.quals[0].1);
                g.quals[0].1 = v;
            } else if g.quals.len() == 1 {
                if let Some((a, b)) = g.quals[0].1.clone().split_once('&') {
                    if let Some((k, v)) = b.split_once('=') {
                        if crate::chars::is_valid_key(k) && !k.eq_ignore_ascii_case(&g.quals[0].0) {
                            g.quals[0].1 = a.to_string();
                            g.quals.push((k.to_ascii_lowercase(), v.to_string()));
                        }
                    }
                } else {
                    g.quals[0].1.push_str("&zz=1");
                }
            } else {
                g.quals.push(("k".into(), "a&l=c".into()));
            }
        },
        Mutation::HashIntoValue => {
            if let Some(q) = g.quals.last_mut() {
                q.1 = format!("{}#{}", q.1, g.subpath);
                g.subpath.clear();
            } else {
                g.version = format!("{}#{}", g.version, g.subpath);
                g.subpath.clear();
            }
        },
        Mutation::QueryIntoName => {
            let q: Vec<String> = g.quals.iter().map(|(k, v)| format!("{k}={v}")).collect();
            if g.version.is_empty() {
                g.name = format!("{}?{}", g.name, q.join("&"));
            } else {
                g.version = format!("{}?{}", g.version, q.join("&"));
            }
            g.quals.clear();
        },
        Mutation::Insignificant(i) => match i % 4 {
            0 => g.ns = if g.ns.is_empty() { "/".into() } else { format!("/{}/", g.ns) },
            1 => g.subpath = if g.subpath.is_empty() { ".".into() } else { format!("./{}/..", g.subpath) },
            2 => g.ns = g.ns.replace('/', "//"),
            _ => g.quals.push(("zz-empty".into(), String::new())),
        },
        Mutation::MoveChar(i, from, to) => {
            let s = field_mut(&mut g, *i);
            let mut cs: Vec<char> = s.chars().collect();
            if cs.len() >= 2 {
                let a = (*from as usize * cs.len()) >> 16;
                let c = cs.remove(a);
                let b = (*to as usize * (cs.len() + 1)) >> 16;
                cs.insert(b, c);
            }
            *s = cs.into_iter().collect();
        },
        Mutation::Append(i, c) => {
            let s = field_mut(&mut g, *i);
            if *c == '\0' {
                s.pop();
            } else {
                s.push(*c);
            }
        },
        Mutation::BumpLast(i) => {
            let s = field_mut(&mut g, *i);
            if let Some(c) = s.pop() {
                let d = match c {
                    '0'..='8' => ((c as u8) + 1) as char,
                    '9' => '8',
                    'a'..='y' | 'A'..='Y' => ((c as u8) + 1) as char,
                    'z' => 'y',
                    'Z' => 'Y',
                    _ => 'x',
                };
                s.push(d);
            }
        },
        Mutation::DropField(i) => match i % 4 {
            0 => g.ns.clear(),
            1 => g.version.clear(),
            2 => g.subpath.clear(),
            _ => {
                g.quals.pop();
            },
        },
    }
    g
}

fn hash_of<T: Hash>(t: &T) -> u64 {
    let mut h = DefaultHasher::new();
    t.hash(&mut h);
    h.finish()
}

fn laws<T>(a: &GenericPurl<T>, b: &GenericPurl<T>, inst: &str) -> Result<bool, String>
where
    T: purl::PurlShape + Eq + Hash + Ord + Clone,
{
    let (sa, sb) = (text(a).map_err(|m| format!("to_string panicked: {m}"))?, text(b).map_err(|m| format!("to_string panicked: {m}"))?);
    let eq = a == b;
    if eq != (sa == sb) {
        return Err(format!("[{inst}] values are {} but their canonical strings are {sa:?} and {sb:?}", if eq { "equal" } else { "different" }));
    }
    if (b == a) != eq || (a != b) == eq {
        return Err(format!("[{inst}] == is not symmetric or != is not its negation for {sa:?} / {sb:?}"));
    }
    if eq && hash_of(a) != hash_of(b) {
        return Err(format!("[{inst}] equal values {sa:?} hash differently"));
    }
    let (c, d) = (a.cmp(b), b.cmp(a));
    if (c == Ordering::Equal) != eq {
        return Err(format!("[{inst}] cmp is {c:?} but == is {eq} for {sa:?} / {sb:?}"));
    }
    if c != d.reverse() {
        return Err(format!("[{inst}] cmp is not antisymmetric: {c:?} and {d:?} for {sa:?} / {sb:?}"));
    }
    if a.partial_cmp(b) != Some(c) {
        return Err(format!("[{inst}] partial_cmp {:?} differs from cmp {c:?}", a.partial_cmp(b)));
    }
    if a.cmp(a) != Ordering::Equal || a != a || hash_of(a) != hash_of(&a.clone()) {
        return Err(format!("[{inst}] a value is not equal to itself: {sa:?}"));
    }
    Ok(sa == sb)
}

fn transitive<T>(v: &[GenericPurl<T>], inst: &str) -> Result<(), String>
where
    T: purl::PurlShape + Eq + Hash + Ord + Clone,
{
    for a in v {
        for b in v {
            for c in v {
                if a <= b && b <= c && !(a <= c) {
                    return Err(format!("[{inst}] ordering is not transitive on {:?}, {:?}, {:?}", text(a), text(b), text(c)));
                }
                if a == b && b == c && a != c {
                    return Err(format!("[{inst}] equality is not transitive"));
                }
            }
        }
    }
    Ok(())
}

fn judge_built<I: Inst>(fs: &[Fields], st: &mut Stats) -> Result<(), String> {
    let mut vals = Vec::new();
    for f in fs {
        let mut f = f.clone();
        f.typed = I::TYPED;
        if let Some(p) = build_fields::<I>(&f)? {
            vals.push(p);
        }
    }
    for i in 0..vals.len() {
        for j in i + 1..vals.len() {
            let same = laws(&vals[i], &vals[j], I::NAME)?;
            st.class(if same { "pair-with-equal-strings" } else { "pair-with-different-strings" });
            let (a, b) = (text(&vals[i]).unwrap_or_default(), text(&vals[j]).unwrap_or_default());
            st.nontrivial(&(I::NAME, a.as_str(), b.as_str()), || json!({ "inst": I::NAME, "a": a, "b": b, "equal": same }));
        }
    }
    if vals.len() >= 3 {
        st.class("triple");
        transitive(&vals, I::NAME)?;
    }
    Ok(())
}

fn judge_parsed<I: ParseInst>(fs: &[Fields], spelled: &str, st: &mut Stats) -> Result<(), String> {
    // parser-made vs builder-made, and two parser-made values
    let mut vals = Vec::new();
    if let Ok(Ok(p)) = parse::<I>(spelled) {
        vals.push(p);
    }
    for f in fs {
        let mut f = f.clone();
        f.typed = I::TYPED;
        if let Some(p) = build_fields::<I>(&f)? {
            let t = text(&p).map_err(|m| format!("to_string panicked: {m}"))?;
            if let Ok(Ok(q)) = parse::<I>(&t) {
                vals.push(q);
            }
            vals.push(p);
        }
    }
    for i in 0..vals.len() {
        for j in i + 1..vals.len() {
            let same = laws(&vals[i], &vals[j], I::NAME)?;
            st.class(if same { "parser-vs-builder-equal" } else { "parser-vs-builder-different" });
        }
    }
    transitive(&vals, I::NAME)
}

fn o_pair(c: &PairCase, st: &mut Stats) -> Result<(), String> {
    let typed = crate::api::known_type_index(&c.tuple.ty.to_ascii_lowercase()).is_some();
    let a = fields_of(&c.tuple, false);
    let b = mutate(&a, &c.mutation);
    let mut fs = vec![a, b.clone()];
    if let Some(m2) = &c.second {
        fs.push(mutate(&b, m2));
    }
    let spelled = spell(&c.tuple, &c.spelling).assemble();
    judge_built::<IStr>(&fs, st)?;
    judge_built::<ICowO>(&fs, st)?;
    judge_built::<ICowB>(&fs, st)?;
    judge_built::<ISmall>(&fs, st)?;
    judge_parsed::<IStr>(&fs, &spelled, st)?;
    judge_parsed::<ISmall>(&fs, &spelled, st)?;
    if typed {
        // only fields whose type is still a known name can be built with PackageType
        let tf: Vec<Fields> = fs.iter().filter(|f| crate::api::known_type_index(&f.ty.to_ascii_lowercase()).is_some()).cloned().collect();
        judge_built::<ITyped>(&tf, st)?;
        judge_parsed::<ITyped>(&tf, &spelled, st)?;
        st.class("typed");
    }
    st.class(match c.mutation {
        Mutation::Same => "mutation:same",
        Mutation::ChangeChar(..) => "mutation:change-char",
        Mutation::FlipCase(..) => "mutation:flip-case",
        Mutation::SlashIntoName => "mutation:slash-into-name",
        Mutation::AtIntoName => "mutation:at-into-name",
        Mutation::MergeQualifiers => "mutation:merge-qualifiers",
        Mutation::HashIntoValue => "mutation:hash-into-value",
        Mutation::QueryIntoName => "mutation:query-into-name",
        Mutation::Insignificant(_) => "mutation:insignificant",
        Mutation::DropField(_) => "mutation:drop-field",
        Mutation::BumpLast(_) => "mutation:bump-last",
        Mutation::MoveChar(..) => "mutation:move-char",
        Mutation::Append(..) => "mutation:append-or-truncate",
    });
    Ok(())
}

pub fn gmutation() -> BoxedStrategy<Mutation> {
    prop_oneof![
        2 => Just(Mutation::Same),
        3 => (any::<u8>(), any::<u16>(), gchar()).prop_map(|(i, p, c)| Mutation::ChangeChar(i, p, c)),
        2 => (any::<u8>(), any::<u16>()).prop_map(|(i, p)| Mutation::FlipCase(i, p)),
        2 => Just(Mutation::SlashIntoName),
        2 => Just(Mutation::AtIntoName),
        3 => Just(Mutation::MergeQualifiers),
        2 => Just(Mutation::HashIntoValue),
        2 => Just(Mutation::QueryIntoName),
        2 => any::<u8>().prop_map(Mutation::Insignificant),
        1 => any::<u8>().prop_map(Mutation::DropField),
        3 => any::<u8>().prop_map(Mutation::BumpLast),
        3 => (any::<u8>(), any::<u16>(), any::<u16>()).prop_map(|(i, a, b)| Mutation::MoveChar(i, a, b)),
        3 => (any::<u8>(), proptest::sample::select(&['\0', 'a', 'b', '0', '1', '_', '.', 'A'][..])).prop_map(|(i, c)| Mutation::Append(i, c)),
    ]
    .boxed()
}

#[derive(Clone, Debug, Serialize, Deserialize)]
pub struct Batch {
    pub tuples: Vec<Tuple>,
    pub mutations: Vec<Mutation>,
}

fn bulk<I: Inst>(fs: &[Fields]) -> Result<usize, String> {
    let mut vals = Vec::new();
    for f in fs {
        let mut f = f.clone();
        f.typed = I::TYPED;
        if I::TYPED && crate::api::known_type_index(&f.ty.to_ascii_lowercase()).is_none() {
            continue;
        }
        if let Some(p) = build_fields::<I>(&f)? {
            vals.push(p);
        }
    }
    let strings: HashSet<String> = vals.iter().map(|p| p.to_string()).collect();
    let hs: HashSet<&GenericPurl<I::T>> = vals.iter().collect();
    let bs: BTreeSet<&GenericPurl<I::T>> = vals.iter().collect();
    if hs.len() != strings.len() || bs.len() != strings.len() {
        return Err(format!(
            "[{}] a batch of {} values has {} distinct strings, {} distinct values by hash set, {} by ordered set",
            I::NAME,
            vals.len(),
            strings.len(),
            hs.len(),
            bs.len()
        ));
    }
    Ok(strings.len())
}

fn o_batch(c: &Batch, st: &mut Stats) -> Result<(), String> {
    let mut fs = Vec::new();
    for (i, t) in c.tuples.iter().enumerate() {
        let a = fields_of(t, false);
        if let Some(m) = c.mutations.get(i) {
            fs.push(mutate(&a, m));
        }
        fs.push(a);
    }
    let n = bulk::<IStr>(&fs)?;
    bulk::<ISmall>(&fs)?;
    bulk::<ICowO>(&fs)?;
    bulk::<ITyped>(&fs)?;
    st.class("batch");
    if n >= 2 {
        st.nontrivial(&c.tuples, || json!({ "batch_of": fs.len(), "distinct_strings": n }));
    }
    Ok(())
}

/// A *dense family*: every string of up to `max_len` characters over a tiny alphabet, put into one
/// field of an otherwise fixed PURL. Ordering mistakes show on short strings over small alphabets
/// (digits next to letters, a prefix next to its extensions), and only a family that contains all of
/// them has the triples on which a comparison that is fine pair by pair stops being transitive.
#[derive(Clone, Debug, Serialize, Deserialize)]
pub struct Family {
    pub alphabet: Vec<char>,
    pub max_len: u8,
    /// 0 version, 1 name, 2 namespace, 3 subpath, 4 qualifier value, 5 second namespace segment
    pub field: u8,
    /// text put before every member (so that the family sits at the end of a longer field)
    pub prefix: String,
    /// symbols of more than one character (long digit runs around the limits of the integer types)
    #[serde(default)]
    pub tokens: Vec<String>,
}

fn family_members(c: &Family) -> Vec<String> {
    let mut out = vec![String::new()];
    let mut layer = vec![String::new()];
    let symbols: Vec<String> = c.alphabet.iter().map(|c| c.to_string()).chain(c.tokens.iter().cloned()).collect();
    for _ in 0..c.max_len {
        let mut next = Vec::new();
        for s in &layer {
            for sym in &symbols {
                let mut t = s.clone();
                t.push_str(sym);
                next.push(t);
            }
        }
        out.extend(next.iter().cloned());
        layer = next;
    }
    out.into_iter().map(|s| format!("{}{s}", c.prefix)).collect()
}

fn judge_family<I: Inst>(c: &Family, st: &mut Stats) -> Result<(), String> {
    let mut vals: Vec<(GenericPurl<I::T>, String)> = Vec::new();
    for m in family_members(c) {
        let mut f = Fields {
            ty: if I::TYPED { "npm".into() } else { "t".into() },
            typed: I::TYPED,
            ns: "g".into(),
            name: "n".into(),
            version: "1".into(),
            quals: vec![("k".into(), "v".into())],
            subpath: "s".into(),
        };
        match c.field % 6 {
            0 => f.version = m,
            1 => f.name = m,
            2 => f.ns = m,
            3 => f.subpath = m,
            4 => f.quals[0].1 = m,
            _ => f.ns = format!("g/{m}"),
        }
        if let Some(p) = build_fields::<I>(&f)? {
            let s = text(&p).map_err(|m| format!("to_string panicked: {m}"))?;
            vals.push((p, s));
        }
    }
    // sort by the implementation's own order (a comparison that is not a total order may make the
    // sort panic: that is a finding as well), then look at every pair of the sorted sequence
    let sorted = crate::engine::guard(|| {
        let mut v: Vec<usize> = (0..vals.len()).collect();
        v.sort_by(|a, b| vals[*a].0.cmp(&vals[*b].0));
        v
    })
    .map_err(|m| format!("[{}] sorting {} values of a dense family panicked ({m}): the ordering is not a total order", I::NAME, vals.len()))?;
    for (i, a) in sorted.iter().enumerate() {
        for b in &sorted[i + 1..] {
            let (pa, sa) = &vals[*a];
            let (pb, sb) = &vals[*b];
            let c = pa.cmp(pb);
            if c == Ordering::Greater {
                return Err(format!("[{}] ordering is not transitive: after sorting a family, {sa:?} stands before {sb:?} but compares as Greater", I::NAME));
            }
            if (c == Ordering::Equal) != (sa == sb) || (pa == pb) != (sa == sb) {
                return Err(format!("[{}] {sa:?} and {sb:?}: cmp {c:?}, == {}", I::NAME, pa == pb));
            }
            if pb.cmp(pa) != c.reverse() {
                return Err(format!("[{}] cmp is not antisymmetric for {sa:?} / {sb:?}", I::NAME));
            }
        }
    }
    let distinct: HashSet<&str> = vals.iter().map(|(_, s)| s.as_str()).collect();
    let hs: HashSet<&GenericPurl<I::T>> = vals.iter().map(|(p, _)| p).collect();
    let bs: BTreeSet<&GenericPurl<I::T>> = vals.iter().map(|(p, _)| p).collect();
    if hs.len() != distinct.len() || bs.len() != distinct.len() {
        return Err(format!("[{}] a family of {} values has {} distinct strings, {} distinct values by hash set, {} by ordered set", I::NAME, vals.len(), distinct.len(), hs.len(), bs.len()));
    }
    st.class_if(vals.len() >= 20, "family of 20 or more values");
    st.class_if(c.alphabet.iter().any(|c| c.is_ascii_digit()) && c.alphabet.iter().any(|c| !c.is_ascii_digit()), "digits and non-digits");
    if distinct.len() >= 3 {
        st.nontrivial(&(I::NAME, &c.alphabet, c.max_len, c.field, &c.prefix), || json!({ "inst": I::NAME, "alphabet": c.alphabet, "max_len": c.max_len, "field": c.field, "prefix": c.prefix, "values": vals.len() }));
    }
    Ok(())
}

fn o_family(c: &Family, st: &mut Stats) -> Result<(), String> {
    let n: u64 = (0..=c.max_len as u32).map(|l| ((c.alphabet.len() + c.tokens.len()) as u64).pow(l)).sum();
    if c.alphabet.is_empty() || n > 2_000 || c.tokens.iter().any(|t| t.len() > 64) {
        return Err("bad replay case: family size".into());
    }
    judge_family::<IStr>(c, st)?;
    judge_family::<ISmall>(c, st)?;
    judge_family::<ITyped>(c, st)
}

fn gfamily() -> BoxedStrategy<Family> {
    let pool = prop_oneof![
        4 => proptest::sample::select(&['0', '1', '2', '9'][..]),
        3 => proptest::sample::select(&['a', 'b', 'x', 'A', 'Z'][..]),
        3 => proptest::sample::select(&['.', '-', '_', '+', '~', ' ', '/', ':', '@', '%', '&', '=', '#', '?'][..]),
        2 => gchar(),
    ];
    (
        proptest::collection::vec(pool, 2..=5),
        any::<u8>(),
        prop_oneof![3 => Just(String::new()), 1 => proptest::sample::select(&["1.", "v", "1", "10", "a-"][..]).prop_map(str::to_string), 1 => crate::chars::gtext(0)],
        // now and then one symbol is a digit run at or beyond the limits of u32 / i64 / u64 / u128
        prop_oneof![
            3 => Just(Vec::new()),
            1 => proptest::sample::select(
                &["4294967296", "9223372036854775808", "18446744073709551615", "18446744073709551616", "100000000000000000000", "99999999999999999999", "340282366920938463463374607431768211456", "00000000000000000000"][..]
            )
            .prop_map(|t| vec![t.to_string()]),
        ],
    )
        .prop_map(|(mut alphabet, field, prefix, tokens)| {
            alphabet.sort();
            alphabet.dedup();
            if !tokens.is_empty() {
                alphabet.truncate(3);
            }
            // as long as the family stays below ~400 members
            let max_len = match alphabet.len() + tokens.len() {
                0..=2 => 6,
                3 => 5,
                4 => 4,
                _ => 3,
            };
            Family { alphabet, max_len, field, prefix, tokens }
        })
        .boxed()
}

/// A value whose qualifier collection has a *past*: the builder's public `parts.qualifiers` is put
/// through a generated sequence of collection operations (C11's language: entry API, removals,
/// retain, indexing, typed accessors ...) before `build()`. It is compared with the value parsed from
/// its own canonical string and with a value built afresh from its accessors: three ways of making
/// one PURL, which must be equal, hash alike and compare as Equal.
#[derive(Clone, Debug, Serialize, Deserialize)]
pub struct PastCase {
    pub q: crate::props::c11::QCase,
    pub ty: String,
    pub name: String,
    pub version: String,
    /// 0: a fresh builder; otherwise the builder comes from `into_builder()` of a value that was built (1) or
    /// parsed (2) with qualifiers and a checksum - whatever `build()` remembers in the value travels along
    #[serde(default)]
    pub reopened: u8,
}

fn judge_past<I: ParseInst>(c: &PastCase, st: &mut Stats) -> Result<(), String> {
    let Some(ty) = I::make_type(&c.ty) else { return Ok(()) };
    let made = crate::engine::guard(|| {
        let fresh = purl::GenericPurlBuilder::new(ty.clone(), c.name.as_str()).with_version(c.version.as_str());
        let mut b = match c.reopened % 3 {
            0 => fresh,
            1 => fresh.with_qualifier("arch", "x")?.with_qualifier("checksum", "sha1:ABCD,md5:00")?.with_qualifier("zz", "1")?.build()?.into_builder(),
            _ => {
                let first = fresh.build()?;
                let text = format!("{first}?arch=x&checksum=SHA1:abcd&zz=1");
                match <I as ParseInst>::from_str(&text) {
                    Ok(p) => p.into_builder(),
                    Err(_) => first.into_builder(),
                }
            },
        };
        crate::props::c11::drive(&mut b.parts.qualifiers, &c.q);
        b.build()
    });
    // a panic or a refusal: no value to compare (C06 / C11 / C14 judge those)
    let Ok(Ok(a)) = made else {
        st.class("no value (panicked or refused)");
        return Ok(());
    };
    let s = text(&a).map_err(|m| format!("to_string panicked: {m}"))?;
    let mut vals = vec![a.clone()];
    if let Ok(Ok(p)) = parse::<I>(&s) {
        // only a parse that prints the same string is "the same PURL made another way" (C01 judges the rest)
        if text(&p).ok().as_deref() == Some(s.as_str()) {
            vals.push(p);
        }
    }
    let again = crate::engine::guard(|| {
        let mut b = purl::GenericPurlBuilder::new(a.package_type().clone(), a.name());
        if let Some(v) = a.version() {
            b = b.with_version(v);
        }
        for (k, v) in a.qualifiers().iter().rev() {
            b = b.with_qualifier(k.as_str(), v)?;
        }
        b.build()
    });
    if let Ok(Ok(p)) = again {
        if text(&p).ok().as_deref() == Some(s.as_str()) {
            vals.push(p);
        }
    }
    for i in 0..vals.len() {
        for j in i + 1..vals.len() {
            let same = laws(&vals[i], &vals[j], I::NAME).map_err(|m| format!("{m} (one of them built after the qualifier operations {:?})", c.q.ops))?;
            if !same {
                return Err(format!("[{}] harness error: strings were compared equal before", I::NAME));
            }
        }
    }
    transitive(&vals, I::NAME)?;
    st.class_if(vals.len() == 3, "three ways of making one value");
    st.class_if(!a.qualifiers().is_empty(), "value with qualifiers");
    if vals.len() >= 2 && !c.q.ops.is_empty() {
        st.nontrivial(&(I::NAME, s.as_str(), &c.q.ops), || json!({ "inst": I::NAME, "string": s, "operations": c.q.ops.len(), "ways": vals.len() }));
    }
    Ok(())
}

fn o_past(c: &PastCase, st: &mut Stats) -> Result<(), String> {
    judge_past::<IStr>(c, st)?;
    judge_past::<ISmall>(c, st)?;
    if crate::api::known_type_index(&c.ty).is_some() {
        st.class("typed");
        judge_past::<ITyped>(c, st)?;
    }
    Ok(())
}

pub fn sections() -> Vec<Box<dyn Section>> {
    vec![
        Box::new(Random {
            name: "qualifier-collections-with-a-past".into(),
            quick: 60_000,
            thorough: 2_000_000,
            strategy: Box::new(|_| {
                (crate::props::c11::gcase_for_c06(), proptest::sample::select(&["t", "npm", "pypi", "golang"][..]), crate::chars::gtext1(), crate::chars::gtext(0))
                    .prop_map(|(mut q, ty, name, version)| {
                        let reopened = (q.shuffle.first().copied().unwrap_or(0)) % 3;
                        // now and then the past ends with an entry-API operation on one of the qualifiers a
                        // re-opened value came with (the generated keys rarely name them)
                        let pick = q.shuffle.get(1).copied().unwrap_or(255);
                        if reopened != 0 && pick < 96 {
                            let key = ["checksum", "Checksum", "arch", "zz"][pick as usize % 4].to_string();
                            q.ops.push(match pick / 4 % 4 {
                                0 => crate::props::c11::QOp::OccRemove(key),
                                1 => crate::props::c11::QOp::OccRemoveEntry(key),
                                2 => crate::props::c11::QOp::OccInsert(key, "sha1:00".into()),
                                _ => crate::props::c11::QOp::Remove(key),
                            });
                        }
                        PastCase { q, ty: ty.to_string(), name, version, reopened }
                    })
                    .boxed()
            }),
            oracle: o_past,
            required: vec!["three ways of making one value", "value with qualifiers", "typed"],
        }),
        Box::new(Random {
            name: "dense-families-in-one-field".into(),
            quick: 1_500,
            thorough: 60_000,
            strategy: Box::new(|_| gfamily()),
            oracle: o_family,
            required: vec!["family of 20 or more values", "digits and non-digits"],
        }),
        Box::new(Random {
            name: "near-collision-pairs-and-triples".into(),
            quick: 80_000,
            thorough: 4_000_000,
            strategy: Box::new(|_| {
                (prop_oneof![gtuple(false), gtuple(true)], gmutation(), proptest::option::weighted(0.4, gmutation()), gchoices())
                    .prop_map(|(tuple, mutation, second, spelling)| PairCase { tuple, mutation, second, spelling })
                    .boxed()
            }),
            oracle: o_pair,
            required: vec![
                "pair-with-equal-strings",
                "pair-with-different-strings",
                "parser-vs-builder-equal",
                "parser-vs-builder-different",
                "triple",
                "typed",
                "mutation:same",
                "mutation:merge-qualifiers",
                "mutation:slash-into-name",
                "mutation:at-into-name",
                "mutation:hash-into-value",
                "mutation:query-into-name",
                "mutation:insignificant",
            ],
        }),
        Box::new(Random {
            name: "bulk-set-sizes".into(),
            quick: 2_000,
            thorough: 60_000,
            strategy: Box::new(|_| {
                (
                    proptest::collection::vec(prop_oneof![gtuple(false), gtuple(true)], 20..=60),
                    proptest::collection::vec(gmutation(), 0..=60),
                )
                    .prop_map(|(tuples, mutations)| Batch { tuples, mutations })
                    .boxed()
            }),
            oracle: o_batch,
            required: vec!["batch"],
        }),
    ]
}

pub fn prop() -> Prop {
    Prop {
        id: "C19",
        sections,
        rule: "Pairs and triples of values with the same type parameter (String, Cow borrowed/owned, SmallString, \
               PackageType), made by the builder from one generated tuple and a near-collision mutation of it (same \
               fields; one character changed or case-flipped; a '/' moved between namespace and name; an '@' between name \
               and version; two qualifiers merged into one value with '&' and '='; '#subpath' moved into a value; \
               '?qualifiers' moved into the name; absent vs insignificant namespace / subpath / empty qualifier; a field \
               dropped), plus parser-made values from a generated spelling and from the printed strings, plus values whose \
               qualifier collection went through a generated sequence of collection operations before build(), compared \
               with the value parsed from their own string and with one built afresh from their accessors, plus dense \
               families (every string of up to 3-6 characters over a generated alphabet of 2-5 characters in one field): \
               sorted by cmp, every pair of the sorted sequence must still compare as Less/Equal. Oracle: a == b \
               iff strings equal; equal => equal hashes; cmp Equal iff ==; antisymmetry; partial_cmp == Some(cmp); \
               transitivity on the triples; for batches of 20-120 values |HashSet| == |BTreeSet| == |set of strings|. \
               Every pair is a near-collision by construction; non-trivial/distinct = distinct ordered pairs of strings.",
        assumptions: &["std's DefaultHasher with fixed keys is the hasher used to compare hashes"],
        extra: None,
    }
}
