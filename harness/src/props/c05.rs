//! C05 - invalid input is refused, with the matching error, however it is spelled.

use proptest::prelude::*;
use serde::{Deserialize, Serialize};
use serde_json::json;

use crate::api::{parse, ISmall, IStr, ITyped, ParseInst};
use crate::engine::{Enumerated, Random, Section, Stats, Tier};
use crate::fault::{inject, FaultCase, KINDS, TYPED_KINDS};
use crate::gens::{strata, strata_make, strata_total};
use crate::model::{strict, Strict};
use crate::props::Prop;
use crate::spell::{gchoices, gtuple};

fn gfault_kind(kind: &'static str, typed: bool) -> BoxedStrategy<FaultCase> {
    (gtuple(typed), gchoices(), proptest::collection::vec(any::<u8>(), 0..=12))
        .prop_map(move |(mut tuple, choices, fchoices)| {
            if kind == "maven-without-namespace" {
                tuple.ty = "maven".to_string();
                if tuple.ns.is_empty() {
                    tuple.ns.push("g".to_string());
                }
            }
            FaultCase { tuple, choices, kind: kind.to_string(), fchoices }
        })
        .boxed()
}

fn refused_with<I: ParseInst>(text: &str, expected: &str) -> Result<(), String> {
    match parse::<I>(text) {
        Err(m) => Err(format!("[{}] parsing {text:?} panicked instead of returning {expected}: {m}", I::NAME)),
        Ok(Ok(_)) => Err(format!("[{}] {text:?} is accepted; it must be refused with {expected}", I::NAME)),
        Ok(Err(k)) => {
            if k == expected {
                Ok(())
            } else {
                Err(format!("[{}] {text:?} is refused with {k}; the only defect calls for {expected}", I::NAME))
            }
        },
    }
}

fn o_generic(c: &FaultCase, st: &mut Stats) -> Result<(), String> {
    let Some(f) = inject(c) else { return Err("bad replay case: fault kind does not apply".into()) };
    refused_with::<IStr>(&f.text, f.expected)?;
    refused_with::<ISmall>(&f.text, f.expected)?;
    st.class(f.cell);
    st.nontrivial(f.text.as_str(), || json!({ "kind": c.kind, "cell": f.cell, "string": f.text, "expected": f.expected }));
    Ok(())
}

fn o_typed(c: &FaultCase, st: &mut Stats) -> Result<(), String> {
    let Some(f) = inject(c) else { return Err("bad replay case: fault kind does not apply".into()) };
    let expected = if f.expected.starts_with("Package::") { f.expected.to_string() } else { format!("Parse({})", f.expected) };
    refused_with::<ITyped>(&f.text, &expected)?;
    st.class(f.cell);
    st.nontrivial(&("typed", f.text.as_str()), || json!({ "kind": c.kind, "cell": f.cell, "string": f.text, "expected": expected }));
    Ok(())
}

pub fn o_token(s: &String, st: &mut Stats) -> Result<(), String> {
    match strict(s) {
        Strict::Reject(why) => {
            for (name, accepted) in [
                ("String", matches!(parse::<IStr>(s), Ok(Ok(_)))),
                ("SmallString", matches!(parse::<ISmall>(s), Ok(Ok(_)))),
            ] {
                if accepted {
                    return Err(format!("[{name}] {s:?} is accepted although it has the defect: {why}"));
                }
            }
            st.class(why);
            st.nontrivial_enumerated(|| json!({ "string": s, "defect": why }));
        },
        Strict::Accept(_) => st.class("strict-accept (judged by C02)"),
        Strict::Unknown(_) => st.class("strict-unknown (not judged)"),
    }
    Ok(())
}

// ---------------------------------------------------------------------------------------------
// every position of a fixed base set (the statement says "at every possible position")

#[derive(Clone, Debug, serde::Serialize, serde::Deserialize)]
pub struct Positioned {
    pub text: String,
    pub expected: String,
    pub cell: String,
    pub typed: bool,
}

fn base_tuples() -> Vec<crate::spell::Tuple> {
    use crate::spell::Tuple;
    let t = |ty: &str, ns: &[&str], name: &str, version: Option<&str>, quals: &[(&str, &str)], ck: &[(&str, &[u8])], sub: &[&str]| Tuple {
        ty: ty.into(),
        ns: ns.iter().map(|s| s.to_string()).collect(),
        name: name.into(),
        version: version.map(str::to_string),
        quals: quals.iter().map(|(k, v)| (k.to_string(), v.to_string())).collect(),
        checksum: ck.iter().map(|(a, b)| (a.to_string(), b.to_vec())).collect(),
        subpath: sub.iter().map(|s| s.to_string()).collect(),
    };
    vec![
        t("t", &[], "n", None, &[], &[], &[]),
        t("npm", &["@scope"], "pkg", Some("1.0.0"), &[], &[], &[]),
        t("maven", &["org.x", "y"], "art", Some("1"), &[("classifier", "src"), ("type", "jar")], &[], &[]),
        t("golang", &["github.com", "a", "b"], "c", Some("v1"), &[], &[], &["cmd", "x"]),
        t("pypi", &[], "A_b", Some("2"), &[("k", "v w")], &[("sha1", &[0, 255])], &["s"]),
        t("nuget", &[], "Néwton", None, &[("repository_url", "https://x/y?z")], &[("a", &[1]), ("B", &[2, 3])], &[]),
        t("x.y+z-1", &["a b", "ç"], "n@m", Some("1/2"), &[("a", "="), ("b.c", "&")], &[], &["d e", "f"]),
        t("cargo", &[], "name", Some("0.1.0"), &[("k1", "v1"), ("k2", "v2"), ("k3", "v3")], &[], &["a", "b", "c"]),
        t("gem", &[], "g", Some("é"), &[], &[], &["ü"]),
    ]
}

fn positioned_cases() -> &'static Vec<Positioned> {
    use crate::fault::BAD_UTF8;
    use crate::spell::{spell, SubPiece};
    static CASES: std::sync::OnceLock<Vec<Positioned>> = std::sync::OnceLock::new();
    CASES.get_or_init(|| {
        let mut out = Vec::new();
        for t in base_tuples() {
            let typed = crate::api::known_type_index(&t.ty).is_some();
            let base = spell(&t, &[]);
            let mut push = |sp: &crate::spell::Spelled, expected: &str, cell: &str| {
                out.push(Positioned { text: sp.assemble(), expected: expected.to_string(), cell: cell.to_string(), typed });
            };
            let patterns: Vec<(&str, &str, &str)> = BAD_UTF8
                .iter()
                .map(|p| (*p, "InvalidEscape", "invalid-utf8"))
                .collect();
            // escapes at every unit boundary of every decoded component
            for (pat, expected, cell) in &patterns {
                for pos in 0..=base.name.len() {
                    let mut sp = base.clone();
                    sp.name.insert(pos, pat.to_string());
                    push(&sp, expected, &format!("{cell}:name"));
                }
                if let Some(v) = &base.version {
                    for pos in 0..=v.len() {
                        let mut sp = base.clone();
                        sp.version.as_mut().unwrap().insert(pos, pat.to_string());
                        push(&sp, expected, &format!("{cell}:version"));
                    }
                }
                for (i, seg) in base.ns.iter().enumerate() {
                    for pos in 0..=seg.len() {
                        let mut sp = base.clone();
                        sp.ns[i].insert(pos, pat.to_string());
                        push(&sp, expected, &format!("{cell}:namespace"));
                    }
                }
                for (i, item) in base.items.iter().enumerate() {
                    for pos in 0..=item.1.len() {
                        let mut sp = base.clone();
                        sp.items[i].1.insert(pos, pat.to_string());
                        push(&sp, expected, &format!("{cell}:qualifier-value"));
                    }
                }
                if let Some(sub) = &base.sub {
                    for (i, piece) in sub.iter().enumerate() {
                        if let SubPiece::Real(units) = piece {
                            for pos in 0..=units.len() {
                                let mut sp = base.clone();
                                if let SubPiece::Real(u) = &mut sp.sub.as_mut().unwrap()[i] {
                                    u.insert(pos, pat.to_string());
                                }
                                push(&sp, expected, &format!("{cell}:subpath"));
                            }
                        }
                    }
                }
            }
            // a hidden '/' at every position of every namespace / subpath segment
            for pat in ["%2F", "%2f"] {
                for (i, seg) in base.ns.iter().enumerate() {
                    for pos in 0..=seg.len() {
                        let mut sp = base.clone();
                        sp.ns[i].insert(pos, pat.to_string());
                        push(&sp, "InvalidEscape", "hidden-slash:namespace");
                    }
                }
                if let Some(sub) = &base.sub {
                    for (i, piece) in sub.iter().enumerate() {
                        if let SubPiece::Real(units) = piece {
                            for pos in 0..=units.len() {
                                let mut sp = base.clone();
                                if let SubPiece::Real(u) = &mut sp.sub.as_mut().unwrap()[i] {
                                    u.insert(pos, pat.to_string());
                                }
                                push(&sp, "InvalidEscape", "hidden-slash:subpath");
                            }
                        }
                    }
                }
            }
            // an invalid character at every position of the type
            for bad in ["!", " ", "%41", "é", "@", ":", "_", "~", "*", "\u{212A}", "=", "&", ",", "ſ", "%2B", "\u{0}", "\u{7f}", "\"", "<", "|", "\\"] {
                let chars: Vec<char> = base.ty.chars().collect();
                for pos in 0..=chars.len() {
                    let mut sp = base.clone();
                    let mut ty: String = chars[..pos].iter().collect();
                    ty.push_str(bad);
                    ty.extend(chars[pos..].iter());
                    sp.ty = ty;
                    push(&sp, "InvalidPackageType", "bad-type");
                }
            }
            // a qualifier item without '=' / with a bad key at every item position
            for at in 0..=base.items.len() {
                for (key, value) in [("k", None), ("a%3Db", None), ("", Some("v")), ("a b", Some("v")), ("ké", Some("")), ("%6B", Some("v")), ("a+b", Some(""))] {
                    let mut sp = base.clone();
                    match value {
                        Some(v) => sp.items.insert(at, (key.to_string(), if v.is_empty() { vec![] } else { vec![v.to_string()] }, false)),
                        None => sp.items.insert(at, (format!("\u{1}{key}"), vec![], false)),
                    }
                    let text = sp.assemble().replace(&format!("\u{1}{key}="), key);
                    out.push(Positioned { text, expected: "InvalidQualifier".into(), cell: "bad-item".into(), typed });
                }
            }
            // every ASCII character that is not a hex digit (and a few others) as a digit of the digest, raw and escaped
            if base.items.is_empty() {
                for b in 0u32..=0x17f {
                    let Some(c) = char::from_u32(b) else { continue };
                    if c.is_ascii_hexdigit() || matches!(c, ':' | ',' | '#' | '?' | '&') {
                        continue;
                    }
                    for escaped in [false, true] {
                        if !escaped && c == '%' {
                            continue;
                        }
                        let digit: String = if escaped { c.to_string().bytes().map(|x| format!("%{x:02X}")).collect() } else { c.to_string() };
                        for value in [format!("sha1:0{digit}"), format!("a:{digit}0,b:00"), format!("a:00,b:{digit}{digit}")] {
                            let mut sp = base.clone();
                            sp.items.push(("checksum".to_string(), vec![value], true));
                            out.push(Positioned { text: sp.assemble(), expected: "InvalidQualifier".into(), cell: "non-hex-digit".into(), typed });
                        }
                    }
                }
            }
            // any character before the scheme
            for c in [' ', '/', ':', 'x', 'P', '\u{feff}', '%', '\n', '\u{0}', 'é'] {
                out.push(Positioned { text: format!("{c}{}", base.assemble()), expected: "UnsupportedUrlScheme".into(), cell: "scheme".into(), typed });
            }
        }
        out
    })
}

fn o_positioned(c: &Positioned, st: &mut Stats) -> Result<(), String> {
    refused_with::<IStr>(&c.text, &c.expected)?;
    refused_with::<ISmall>(&c.text, &c.expected)?;
    if c.typed {
        refused_with::<ITyped>(&c.text, &format!("Parse({})", c.expected))?;
    }
    match c.cell.split(':').next().unwrap_or("") {
        "invalid-utf8" => st.class("positioned:invalid-utf8"),
        "hidden-slash" => st.class("positioned:hidden-slash"),
        "bad-type" => st.class("positioned:bad-type"),
        "bad-item" => st.class("positioned:bad-item"),
        "non-hex-digit" => st.class("positioned:non-hex-digit"),
        _ => st.class("positioned:scheme"),
    }
    st.nontrivial(c.text.as_str(), || json!({ "cell": c.cell, "string": c.text, "expected": c.expected }));
    Ok(())
}

/// Scheme faults with *every* scalar value: one of the four characters of `pkg:` replaced by it, or it
/// put in front. (Replacing a letter by its other ASCII case is not a fault the statement judges.)
#[derive(Clone, Debug, Serialize, Deserialize)]
pub struct SchemeScalar {
    pub text: String,
}

const SCHEME_BASES: &[&str] = &["pkg:npm/foo@1.0", "pkg:maven/g/a@1?k=v#s"];

fn scheme_scalar(idx: u64) -> Option<SchemeScalar> {
    let per = 0x110000u64;
    let base = SCHEME_BASES[(idx / (5 * per)) as usize % SCHEME_BASES.len()];
    let pos = ((idx / per) % 5) as usize;
    let c = char::from_u32((idx % per) as u32)?;
    let rest = &base[4..];
    let scheme: Vec<char> = "pkg:".chars().collect();
    let text = if pos == 4 {
        format!("{c}{base}")
    } else {
        if c.to_ascii_lowercase() == scheme[pos] {
            return None;
        }
        let mut t: String = scheme.iter().enumerate().map(|(i, x)| if i == pos { c } else { *x }).collect();
        t.push_str(rest);
        t
    };
    Some(SchemeScalar { text })
}

fn o_scheme_scalar(c: &SchemeScalar, st: &mut Stats) -> Result<(), String> {
    if c.text.get(..4).is_some_and(|p| p.eq_ignore_ascii_case("pkg:")) {
        return Err("bad replay case: the scheme is intact".into());
    }
    refused_with::<IStr>(&c.text, "UnsupportedUrlScheme")?;
    refused_with::<ISmall>(&c.text, "UnsupportedUrlScheme")?;
    refused_with::<ITyped>(&c.text, "Parse(UnsupportedUrlScheme)")?;
    st.class("scheme:every-scalar");
    st.nontrivial_enumerated(|| json!({ "string": c.text, "expected": "UnsupportedUrlScheme" }));
    Ok(())
}

/// Every short well-formed type name (first a letter, then letters, digits, '.', '+', '-'), in lower and
/// in upper case: unless it is one of the seven names, the typed PURL refuses it with UnsupportedType.
const TYPE_FIRST: &[u8] = b"abcdefghijklmnopqrstuvwxyz";
const TYPE_REST: &[u8] = b"abcdefghijklmnopqrstuvwxyz0123456789.+-";

fn short_types_total(max_len: u32) -> u64 {
    2 * (1..=max_len).map(|l| 26 * 39u64.pow(l - 1)).sum::<u64>()
}

fn short_type(idx: u64) -> Option<String> {
    let upper = idx & 1 == 1;
    let mut idx = idx >> 1;
    let mut len = 1u32;
    loop {
        let n = 26 * 39u64.pow(len - 1);
        if idx < n {
            break;
        }
        idx -= n;
        len += 1;
    }
    let mut s = String::with_capacity(len as usize);
    s.push(TYPE_FIRST[(idx % 26) as usize] as char);
    idx /= 26;
    for _ in 1..len {
        s.push(TYPE_REST[(idx % 39) as usize] as char);
        idx /= 39;
    }
    if upper {
        s.make_ascii_uppercase();
    }
    Some(s)
}

fn o_short_type(ty: &String, st: &mut Stats) -> Result<(), String> {
    if !crate::chars::is_valid_type(ty) {
        return Err("bad replay case: not a well-formed type".into());
    }
    if crate::chars::KNOWN_TYPES.contains(&ty.to_ascii_lowercase().as_str()) {
        st.class("one of the seven names (not a fault)");
        return Ok(());
    }
    let text = format!("pkg:{ty}/g/n@1");
    refused_with::<ITyped>(&text, "Package::UnsupportedType")?;
    st.class("unknown-type:short");
    st.nontrivial_enumerated(|| json!({ "string": text, "expected": "Package::UnsupportedType" }));
    Ok(())
}

/// Every Unicode scalar value that is not a hex digit, written as a digit of a digest (in four shapes, so
/// that the digest has an even and an odd number of bytes and of characters): never accepted.
fn scalar_digit(idx: u64) -> Option<SchemeScalar> {
    let c = char::from_u32((idx / 4) as u32)?;
    // (':' is not a wrong digit: it moves the boundary between algorithm and digest)
    if c.is_ascii_hexdigit() || c == ',' || c == ':' {
        return None;
    }
    let enc: String = c.to_string().bytes().map(|b| format!("%{b:02X}")).collect();
    let value = match idx % 4 {
        0 => format!("sha1:{enc}"),
        1 => format!("sha1:0{enc}"),
        2 => format!("sha1:{enc}{enc}"),
        _ => format!("a:00,b:{enc}0{enc}0"),
    };
    Some(SchemeScalar { text: format!("pkg:npm/n?checksum={value}") })
}

fn o_scalar_digit(c: &SchemeScalar, st: &mut Stats) -> Result<(), String> {
    refused_with::<IStr>(&c.text, "InvalidQualifier")?;
    refused_with::<ISmall>(&c.text, "InvalidQualifier")?;
    refused_with::<ITyped>(&c.text, "Parse(InvalidQualifier)")?;
    st.class("checksum:every-scalar-as-digit");
    st.nontrivial_enumerated(|| json!({ "string": c.text, "expected": "InvalidQualifier" }));
    Ok(())
}

fn cells(kind: &str) -> Vec<&'static str> {
    match kind {
        "scheme" => vec!["scheme:prefix-removed", "scheme:colon-missing", "scheme:colon-replaced", "scheme:other-scheme", "scheme:char-before"],
        "no-type" => vec!["no-type"],
        "bad-type" => vec!["bad-type:at-start", "bad-type:inside", "bad-type:at-end"],
        "no-name" => vec!["no-name:emptied", "no-name:no-slash"],
        "item-without-eq" => vec!["item-without-eq:only-item", "item-without-eq:first", "item-without-eq:middle", "item-without-eq:last"],
        "bad-key" => vec![
            "bad-key:empty",
            "bad-key:space",
            "bad-key:at",
            "bad-key:slash",
            "bad-key:colon",
            "bad-key:plus",
            "bad-key:tilde",
            "bad-key:non-ascii",
            "bad-key:percent-encoded",
        ],
        "duplicate-key" => vec![
            "duplicate-key:added-pair",
            "duplicate-key:existing-other-case",
            "duplicate-key:existing-same-case",
            "duplicate-key:checksum-other-case",
        ],
        "invalid-utf8" => vec![
            "invalid-utf8:name",
            "invalid-utf8:version",
            "invalid-utf8:namespace-first-segment",
            "invalid-utf8:namespace-later-segment",
            "invalid-utf8:qualifier-value",
            "invalid-utf8:subpath-first-segment",
            "invalid-utf8:subpath-later-segment",
        ],
        "hidden-slash" => vec![
            "hidden-slash:subpath-whole-segment",
            "hidden-slash:subpath-inside-segment",
            "hidden-slash:namespace-whole-segment",
            "hidden-slash:namespace-inside-segment",
        ],
        "checksum" => vec![
            "checksum:no-colon",
            "checksum:odd-digits",
            "checksum:non-hex",
            "checksum:duplicate-algorithm",
            "checksum:empty-entry",
        ],
        "unknown-type" => vec!["unknown-type"],
        "maven-without-namespace" => vec!["maven-without-namespace:plain", "maven-without-namespace:extra-slashes"],
        _ => vec![],
    }
}

fn o_hist(h: &crate::history::Hist<FaultCase>, st: &mut Stats) -> Result<(), String> {
    let text = inject(&h.inner).map(|f| f.text).unwrap_or_default();
    crate::history::judge(h, &text, o_generic, st)
}

pub fn sections() -> Vec<Box<dyn Section>> {
    let mut v: Vec<Box<dyn Section>> = Vec::new();
    v.push(Box::new(Random {
        name: "faults-after-a-prelude".into(),
        quick: 16_000,
        thorough: 400_000,
        strategy: Box::new(|_| crate::history::ghist(crate::props::c01::gfault())),
        oracle: o_hist,
        required: vec![],
    }));
    for kind in KINDS {
        v.push(Box::new(Random {
            name: format!("fault:{kind}"),
            quick: 25_000,
            thorough: 800_000,
            strategy: Box::new(move |_| gfault_kind(kind, false)),
            oracle: o_generic,
            required: cells(kind),
        }));
    }
    for kind in KINDS.iter().chain(TYPED_KINDS.iter()) {
        v.push(Box::new(Random {
            name: format!("typed-fault:{kind}"),
            quick: 15_000,
            thorough: 500_000,
            strategy: Box::new(move |_| gfault_kind(kind, true)),
            oracle: o_typed,
            required: cells(kind),
        }));
    }
    v.push(Box::new(Enumerated {
        name: "every-position-of-a-fixed-base-set".into(),
        total: Box::new(|_| positioned_cases().len() as u64),
        make: Box::new(|_, i| positioned_cases().get(i as usize).cloned()),
        oracle: o_positioned,
        required: vec!["positioned:invalid-utf8", "positioned:hidden-slash", "positioned:bad-type", "positioned:bad-item", "positioned:scheme"],
        complete: true,
    }));
    v.push(Box::new(Enumerated {
        name: "scheme-every-scalar-at-every-position".into(),
        total: Box::new(|_| 2 * 5 * 0x110000u64),
        make: Box::new(|_, i| scheme_scalar(i)),
        oracle: o_scheme_scalar,
        required: vec!["scheme:every-scalar"],
        complete: true,
    }));
    v.push(Box::new(Enumerated {
        name: "checksum-every-scalar-as-a-digit".into(),
        total: Box::new(|_| 4 * 0x110000u64),
        make: Box::new(|_, i| scalar_digit(i)),
        oracle: o_scalar_digit,
        required: vec!["checksum:every-scalar-as-digit"],
        complete: true,
    }));
    v.push(Box::new(Enumerated {
        name: "unknown-type-every-short-name".into(),
        total: Box::new(|t: Tier| short_types_total(t.pick(5, 6))),
        make: Box::new(|_, i| short_type(i)),
        oracle: o_short_type,
        required: vec!["unknown-type:short"],
        complete: true,
    }));
    v.push(Box::new(Enumerated {
        name: "token-language-never-accepted".into(),
        total: Box::new(|t: Tier| strata_total(&strata(t.pick(5, 6), t.pick(5, 7)))),
        make: Box::new(|t: Tier, i| strata_make(&strata(t.pick(5, 6), t.pick(5, 7)), i)),
        oracle: o_token,
        required: vec![
            "scheme",
            "no type",
            "no name",
            "bad type",
            "item without '='",
            "bad key",
            "duplicate key",
            "malformed checksum",
            "hidden '/' in namespace",
            "hidden '/' in subpath",
            "invalid utf-8 in name",
            "invalid utf-8 in version",
            "invalid utf-8 in namespace",
            "invalid utf-8 in qualifier value",
            "invalid utf-8 in subpath",
        ],
        complete: true,
    }));
    v
}

pub fn prop() -> Prop {
    Prop {
        id: "C05",
        sections,
        rule: "An otherwise valid generated spelling (as for C02) plus exactly one fault of a listed kind at a generated \
               position with a generated spelling (one section per fault kind, for GenericPurl<String>/<SmallString> and, \
               with one of the seven types as base, for Purl); oracle: refused, and the error variant is the one the \
               statement assigns (wrapped in PackageError::Parse by the typed PURL; UnsupportedType / \
               MissingRequiredField(Namespace) for the two typed-only kinds). Plus, for nine fixed base PURLs covering every \
               component, every invalid-UTF-8 pattern and every hidden '/' at every unit boundary of every decoded \
               component, every invalid character at every position of the type, a bad item at every item position and a \
               character before the scheme (complete). Plus every Unicode scalar value in place of each of the four \
               characters of `pkg:` and in front of it, and every well-formed type name of up to 5 (thorough: 6) \
               characters in lower and in upper case through the typed PURL (complete). Plus every string of the bounded token \
               language for which the independent recogniser M-strict finds a listed defect: never accepted. Every case \
               is a fault case; non-trivial/distinct = distinct faulty strings by hash (token strings distinct by \
               construction). The evidence lists counts per (kind, component/spelling) cell; an empty cell is a harness \
               error (exit 2).",
        assumptions: &[
            "an empty item between '&&', a type with a leading digit and the letter case of the scheme are not judged",
            "the error variant is compared for single-fault inputs only; token-language strings are only checked for refusal",
        ],
        extra: None,
    }
}
