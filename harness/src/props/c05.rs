//! C05 - invalid input is refused, with the matching error, however it is spelled.

use proptest::prelude::*;
use serde_json::json;

use crate::api::{parse, ISmall, IStr, ITyped, ParseInst};
use crate::engine::{Enumerated, Random, Section, Stats, Tier};
use crate::fault::{inject, FaultCase, KINDS, TYPED_KINDS};
use crate::gens::{strata, strata_make, strata_total};
use crate::model::{strict, Strict};
use crate::props::Prop;
use crate::spell::{gchoices, gtuple};

fn gfault_kind(kind: &'static str, typed: bool) -> BoxedStrategy<FaultCase> {
    (gtuple(typed), gchoices(), proptest::collection::vec(any::<u8>(), 0..=12))
        .prop_map(move |(mut tuple, choices, fchoices)| {
            if kind == "maven-without-namespace" {
                tuple.ty = "maven".to_string();
                if tuple.ns.is_empty() {
                    tuple.ns.push("g".to_string());
                }
            }
            FaultCase { tuple, choices, kind: kind.to_string(), fchoices }
        })
        .boxed()
}

fn refused_with<I: ParseInst>(text: &str, expected: &str) -> Result<(), String> {
    match parse::<I>(text) {
        Err(m) => Err(format!("[{}] parsing {text:?} panicked instead of returning {expected}: {m}", I::NAME)),
        Ok(Ok(_)) => Err(format!("[{}] {text:?} is accepted; it must be refused with {expected}", I::NAME)),
        Ok(Err(k)) => {
            if k == expected {
                Ok(())
            } else {
                Err(format!("[{}] {text:?} is refused with {k}; the only defect calls for {expected}", I::NAME))
            }
        },
    }
}

fn o_generic(c: &FaultCase, st: &mut Stats) -> Result<(), String> {
    let Some(f) = inject(c) else { return Err("bad replay case: fault kind does not apply".into()) };
    refused_with::<IStr>(&f.text, f.expected)?;
    refused_with::<ISmall>(&f.text, f.expected)?;
    st.class(f.cell);
    st.nontrivial(f.text.as_str(), || json!({ "kind": c.kind, "cell": f.cell, "string": f.text, "expected": f.expected }));
    Ok(())
}

fn o_typed(c: &FaultCase, st: &mut Stats) -> Result<(), String> {
    let Some(f) = inject(c) else { return Err("bad replay case: fault kind does not apply".into()) };
    let expected = if f.expected.starts_with("Package::") { f.expected.to_string() } else { format!("Parse({})", f.expected) };
    refused_with::<ITyped>(&f.text, &expected)?;
    st.class(f.cell);
    st.nontrivial(&("typed", f.text.as_str()), || json!({ "kind": c.kind, "cell": f.cell, "string": f.text, "expected": expected }));
    Ok(())
}

pub fn o_token(s: &String, st: &mut Stats) -> Result<(), String> {
    match strict(s) {
        Strict::Reject(why) => {
            for (name, accepted) in [
                ("String", matches!(parse::<IStr>(s), Ok(Ok(_)))),
                ("SmallString", matches!(parse::<ISmall>(s), Ok(Ok(_)))),
            ] {
                if accepted {
                    return Err(format!("[{name}] {s:?} is accepted although it has the defect: {why}"));
                }
            }
            st.class(why);
            st.nontrivial_enumerated(|| json!({ "string": s, "defect": why }));
        },
        Strict::Accept(_) => st.class("strict-accept (judged by C02)"),
        Strict::Unknown(_) => st.class("strict-unknown (not judged)"),
    }
    Ok(())
}

fn cells(kind: &str) -> Vec<&'static str> {
    match kind {
        "scheme" => vec!["scheme:prefix-removed", "scheme:colon-missing", "scheme:colon-replaced", "scheme:other-scheme", "scheme:char-before"],
        "no-type" => vec!["no-type"],
        "bad-type" => vec!["bad-type:at-start", "bad-type:inside", "bad-type:at-end"],
        "no-name" => vec!["no-name:emptied", "no-name:no-slash"],
        "item-without-eq" => vec!["item-without-eq:only-item", "item-without-eq:first", "item-without-eq:middle", "item-without-eq:last"],
        "bad-key" => vec![
            "bad-key:empty",
            "bad-key:space",
            "bad-key:at",
            "bad-key:slash",
            "bad-key:colon",
            "bad-key:plus",
            "bad-key:tilde",
            "bad-key:non-ascii",
            "bad-key:percent-encoded",
        ],
        "duplicate-key" => vec![
            "duplicate-key:added-pair",
            "duplicate-key:existing-other-case",
            "duplicate-key:existing-same-case",
            "duplicate-key:checksum-other-case",
        ],
        "invalid-utf8" => vec![
            "invalid-utf8:name",
            "invalid-utf8:version",
            "invalid-utf8:namespace-first-segment",
            "invalid-utf8:namespace-later-segment",
            "invalid-utf8:qualifier-value",
            "invalid-utf8:subpath-first-segment",
            "invalid-utf8:subpath-later-segment",
        ],
        "hidden-slash" => vec![
            "hidden-slash:subpath-whole-segment",
            "hidden-slash:subpath-inside-segment",
            "hidden-slash:namespace-whole-segment",
            "hidden-slash:namespace-inside-segment",
        ],
        "checksum" => vec![
            "checksum:no-colon",
            "checksum:odd-digits",
            "checksum:non-hex",
            "checksum:duplicate-algorithm",
            "checksum:empty-entry",
        ],
        "unknown-type" => vec!["unknown-type"],
        "maven-without-namespace" => vec!["maven-without-namespace:plain", "maven-without-namespace:extra-slashes"],
        _ => vec![],
    }
}

pub fn sections() -> Vec<Box<dyn Section>> {
    let mut v: Vec<Box<dyn Section>> = Vec::new();
    for kind in KINDS {
        v.push(Box::new(Random {
            name: format!("fault:{kind}"),
            quick: 25_000,
            thorough: 800_000,
            strategy: Box::new(move |_| gfault_kind(kind, false)),
            oracle: o_generic,
            required: cells(kind),
        }));
    }
    for kind in KINDS.iter().chain(TYPED_KINDS.iter()) {
        v.push(Box::new(Random {
            name: format!("typed-fault:{kind}"),
            quick: 15_000,
            thorough: 500_000,
            strategy: Box::new(move |_| gfault_kind(kind, true)),
            oracle: o_typed,
            required: cells(kind),
        }));
    }
    v.push(Box::new(Enumerated {
        name: "token-language-never-accepted".into(),
        total: Box::new(|t: Tier| strata_total(&strata(t.pick(5, 6), t.pick(5, 7)))),
        make: Box::new(|t: Tier, i| strata_make(&strata(t.pick(5, 6), t.pick(5, 7)), i)),
        oracle: o_token,
        required: vec![
            "scheme",
            "no type",
            "no name",
            "bad type",
            "item without '='",
            "bad key",
            "duplicate key",
            "malformed checksum",
            "hidden '/' in namespace",
            "hidden '/' in subpath",
            "invalid utf-8 in name",
            "invalid utf-8 in version",
            "invalid utf-8 in namespace",
            "invalid utf-8 in qualifier value",
            "invalid utf-8 in subpath",
        ],
        complete: true,
    }));
    v
}

pub fn prop() -> Prop {
    Prop {
        id: "C05",
        sections,
        rule: "An otherwise valid generated spelling (as for C02) plus exactly one fault of a listed kind at a generated \
               position with a generated spelling (one section per fault kind, for GenericPurl<String>/<SmallString> and, \
               with one of the seven types as base, for Purl); oracle: refused, and the error variant is the one the \
               statement assigns (wrapped in PackageError::Parse by the typed PURL; UnsupportedType / \
               MissingRequiredField(Namespace) for the two typed-only kinds). Plus every string of the bounded token \
               language for which the independent recogniser M-strict finds a listed defect: never accepted. Every case \
               is a fault case; non-trivial/distinct = distinct faulty strings by hash (token strings distinct by \
               construction). The evidence lists counts per (kind, component/spelling) cell; an empty cell is a harness \
               error (exit 2).",
        assumptions: &[
            "an empty item between '&&', a type with a leading digit and the letter case of the scheme are not judged",
            "the error variant is compared for single-fault inputs only; token-language strings are only checked for refusal",
        ],
        extra: None,
    }
}
