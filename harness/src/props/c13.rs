//! C13 - all built-in type parameters behave identically.

use proptest::prelude::*;
use serde_json::json;

use crate::api::{observe, ICowB, ICowO, ISmall, IStr, ParseInst};
use crate::buildprog::{gprogram, run, Op, Outcome};
use crate::chars::is_valid_type;
use crate::engine::{guard, Enumerated, Random, Section, Stats, Tier};
use crate::gens::{gcorpus_mut, gsoup, strata, strata_make, strata_total};
use crate::model::Obs;
use crate::props::c01::{gfault, gspelled, SpelledCase};
use crate::props::c04::ProgramCase;
use crate::props::Prop;
use crate::spell::spell;

type Full = Result<(Obs, String), (String, String)>;

fn full<I: ParseInst>(s: &str) -> Result<Full, String> {
    guard(|| match I::from_str(s) {
        Ok(p) => Ok((observe(&p), p.to_string())),
        Err(e) => Err((I::err_kind(&e), e.to_string())),
    })
}

fn type_is_interesting(t: &str) -> bool {
    !is_valid_type(t) || t.bytes().any(|b| b.is_ascii_uppercase() || b.is_ascii_digit() || matches!(b, b'.' | b'+' | b'-'))
}

pub fn parse_diff(s: &str, st: &mut Stats) -> Result<(), String> {
    let a = full::<IStr>(s);
    let b = full::<ISmall>(s);
    if a != b {
        return Err(format!("GenericPurl<String> and GenericPurl<SmallString> disagree on {s:?}: {a:?} vs {b:?}"));
    }
    if let Ok(r) = &a {
        st.class(if r.is_ok() { "both-accept" } else { "both-refuse" });
        let ty = s.strip_prefix("pkg:").map(|r| r.trim_start_matches('/').split('/').next().unwrap_or("")).unwrap_or("");
        if type_is_interesting(ty) {
            st.nontrivial(s, || json!({ "input": s, "outcome": format!("{r:?}") }));
        }
    }
    Ok(())
}

fn o_spelled(c: &SpelledCase, st: &mut Stats) -> Result<(), String> {
    parse_diff(&spell(&c.tuple, &c.choices).assemble(), st)
}

fn o_fault(c: &crate::fault::FaultCase, st: &mut Stats) -> Result<(), String> {
    match crate::fault::inject(c) {
        Some(f) => parse_diff(&f.text, st),
        None => Ok(()),
    }
}

fn o_string(s: &String, st: &mut Stats) -> Result<(), String> {
    parse_diff(s, st)
}

fn o_program(c: &ProgramCase, st: &mut Stats) -> Result<(), String> {
    let p = &c.program;
    let a = run::<IStr>(p).0;
    let others = [("Cow::Borrowed", run::<ICowB>(p).0), ("Cow::Owned", run::<ICowO>(p).0), ("SmallString", run::<ISmall>(p).0)];
    for (name, o) in &others {
        if *o != a {
            return Err(format!("builder program {p:?}: String gives {a:?} but {name} gives {o:?}"));
        }
    }
    st.class(match &a {
        Outcome::Built(..) => "all-build",
        Outcome::BuildErr(k) if k == "InvalidPackageType" => "all-refuse-invalid-type",
        Outcome::BuildErr(_) => "all-refuse-other",
        Outcome::CallErr(..) => "all-call-err",
        _ => "other",
    });
    let mut types: Vec<&str> = vec![p.ty.as_str()];
    for op in &p.ops {
        if let Op::Type(t) | Op::PartsType(t) = op {
            types.push(t);
        }
    }
    let last = types.last().copied().unwrap_or("");
    st.class_if(last.bytes().any(|b| b.is_ascii_uppercase()) && is_valid_type(last), "valid-type-with-upper-case");
    if type_is_interesting(last) {
        st.nontrivial(p, || json!({ "program": p, "outcome": format!("{a:?}") }));
    }
    Ok(())
}

/// Two builds directly after one another on one thread, for every ordered pair of short type strings
/// (1 and 2 characters over the type alphabet plus two capitals and an invalid character): whatever
/// one type parameter remembers from the previous call - a memo keyed by something weaker than the
/// text - shows as a difference between the parameters on the second build. Short strings over a
/// full alphabet contain the collisions of every simple string hash (polynomial, xor / rotate, sum).
#[derive(Clone, Debug, serde::Serialize, serde::Deserialize)]
pub struct TypePair {
    pub first: String,
    pub second: String,
}

const PAIR_ALPHABET: &[u8] = b"abcdefghijklmnopqrstuvwxyz0123456789.+-AZ~";

fn short_type_count() -> u64 {
    let k = PAIR_ALPHABET.len() as u64;
    k + k * k
}

fn short_type_at(mut i: u64) -> String {
    let k = PAIR_ALPHABET.len() as u64;
    let mut s = String::new();
    if i < k {
        s.push(PAIR_ALPHABET[i as usize] as char);
    } else {
        i -= k;
        s.push(PAIR_ALPHABET[(i % k) as usize] as char);
        s.push(PAIR_ALPHABET[(i / k) as usize] as char);
    }
    s
}

fn o_type_pair(c: &TypePair, st: &mut Stats) -> Result<(), String> {
    let first = crate::buildprog::Program { ty: c.first.clone(), name: "n".into(), ops: vec![] };
    let _ = (run::<IStr>(&first).0, run::<ICowB>(&first).0, run::<ICowO>(&first).0, run::<ISmall>(&first).0);
    let second = ProgramCase { program: crate::buildprog::Program { ty: c.second.clone(), name: "n".into(), ops: vec![] }, typed: false };
    o_program(&second, st).map_err(|m| format!("directly after building with the type {:?}: {m}", c.first))?;
    st.class("consecutive-pair");
    Ok(())
}

fn type_pair_in_run(idx: u64) -> Option<ProgramCase> {
    let n = PAIR_ALPHABET.len() as u64;
    let k = idx % 8;
    let fill = [b'a', b'1'][((idx / 8) % 2) as usize] as char;
    let pair = idx / 16;
    let (a, b) = (PAIR_ALPHABET[(pair / n) as usize] as char, PAIR_ALPHABET[(pair % n) as usize] as char);
    let ty = format!("{}{a}{b}{}", fill.to_string().repeat(1 + k as usize), fill.to_string().repeat(9));
    Some(ProgramCase { program: crate::buildprog::Program { ty, name: "n".into(), ops: vec![] }, typed: false })
}

pub fn sections() -> Vec<Box<dyn Section>> {
    vec![
        Box::new(Random {
            name: "parse-spelled".into(),
            quick: 150_000,
            thorough: 5_000_000,
            strategy: Box::new(|_| gspelled()),
            oracle: o_spelled,
            required: vec!["both-accept"],
        }),
        Box::new(Random {
            name: "parse-faulted".into(),
            quick: 100_000,
            thorough: 3_000_000,
            strategy: Box::new(|_| gfault()),
            oracle: o_fault,
            required: vec!["both-refuse"],
        }),
        Box::new(Random {
            name: "parse-soup".into(),
            quick: 150_000,
            thorough: 4_000_000,
            strategy: Box::new(|_| prop_oneof![gsoup(), gcorpus_mut()].boxed()),
            oracle: o_string,
            required: vec!["both-accept", "both-refuse"],
        }),
        Box::new(Enumerated {
            name: "parse-token-language".into(),
            total: Box::new(|t: Tier| strata_total(&strata(t.pick(4, 5), t.pick(5, 6)))),
            make: Box::new(|t: Tier, i| strata_make(&strata(t.pick(4, 5), t.pick(5, 6)), i)),
            oracle: o_string,
            required: vec!["both-accept", "both-refuse"],
            complete: true,
        }),
        Box::new(Enumerated {
            name: "every-pair-at-every-offset-inside-a-long-type".into(),
            total: Box::new(|_| (PAIR_ALPHABET.len() * PAIR_ALPHABET.len() * 16) as u64),
            make: Box::new(|_, i| type_pair_in_run(i)),
            oracle: o_program,
            required: vec!["all-build", "valid-type-with-upper-case"],
            complete: true,
        }),
        Box::new(Enumerated {
            name: "consecutive-builds-every-pair-of-short-types".into(),
            total: Box::new(|_| short_type_count() * short_type_count()),
            make: Box::new(|_, i| {
                let n = short_type_count();
                Some(TypePair { first: short_type_at(i / n), second: short_type_at(i % n) })
            }),
            oracle: o_type_pair,
            required: vec!["consecutive-pair"],
            complete: true,
        }),
        Box::new(Random {
            name: "builder-four-parameters".into(),
            quick: 200_000,
            thorough: 6_000_000,
            strategy: Box::new(|_| gprogram(false).prop_map(|program| ProgramCase { program, typed: false }).boxed()),
            oracle: o_program,
            required: vec!["all-build", "all-refuse-invalid-type", "all-refuse-other", "all-call-err", "valid-type-with-upper-case"],
        }),
    ]
}

pub fn prop() -> Prop {
    Prop {
        id: "C13",
        sections,
        rule: "Differential: every generated string (legal spellings, single-fault spellings, soup, mutated conformance \
               strings, the complete bounded token language) parsed as GenericPurl<String> and GenericPurl<SmallString>; \
               every builder program with arbitrary, possibly invalid type strings run with String, Cow::Borrowed, \
               Cow::Owned and SmallString. Oracle: same Ok/Err, same error variant and Display text, same type string, \
               accessors and canonical string. Non-trivial = the (last) type string has an upper-case letter, a digit, \
               one of '.+-' or is invalid; distinct by hash of the input / program.",
        assumptions: &["Cow::Borrowed needs a 'static str: type strings are interned (leaked once per distinct string)"],
        extra: None,
    }
}
