//! C06 - no input makes the library panic.

use proptest::prelude::*;
use proptest::sample::select;
use purl::qualifiers::well_known::Checksum;
use purl::Qualifiers;
use serde::{Deserialize, Serialize};
use serde_json::json;

use crate::api::{parse, text, ICowB, ICowO, ISmall, IStr, ITyped, Inst, ParseInst, SmallString};
use crate::buildprog::{gck_entries, gck_text, gkey_any, gprogram, make_checksum, run, CkVal, Outcome, Program};
use crate::chars::{gtext, is_valid_key};
use crate::engine::{guard, Enumerated, Listed, Random, Section, Stats, Tier};
use crate::gens::{corpus, gany_string, gcorpus_mut, gsoup, strata, strata_make, strata_total};
use crate::props::c01::{gfault, gspelled, SpelledCase};
use crate::props::c04::ProgramCase;
use crate::props::Prop;
use crate::spell::{galgorithm, spell};

fn no_panic_parse<I: ParseInst>(s: &str, st: &mut Stats) -> Result<(), String> {
    let shown = || if s.len() > 200 { format!("{:?}... ({} bytes)", &s[..s.char_indices().nth(150).map(|x| x.0).unwrap_or(s.len())], s.len()) } else { format!("{s:?}") };
    match parse::<I>(s) {
        Err(m) => Err(format!("[{}] from_str({}) panicked: {m}", I::NAME, shown())),
        Ok(Err(k)) => {
            st.class_if(k != "UnsupportedUrlScheme" && k != "Parse(UnsupportedUrlScheme)", "refused-past-the-scheme-check");
            Ok(())
        },
        Ok(Ok(p)) => {
            st.class("accepted");
            let t = text(&p).map_err(|m| format!("[{}] to_string() of the PURL parsed from {} panicked: {m}", I::NAME, shown()))?;
            let p2 = p.clone();
            guard(move || {
                let _ = p2.into_builder().build();
            })
            .map_err(|m| format!("[{}] into_builder().build() panicked for {t:?}: {m}", I::NAME))?;
            Ok(())
        },
    }
}

pub fn parse_all(s: &str, st: &mut Stats) -> Result<(), String> {
    no_panic_parse::<IStr>(s, st)?;
    no_panic_parse::<ISmall>(s, st)?;
    no_panic_parse::<ITyped>(s, st)?;
    // serde entry point
    let js = serde_json::to_string(s).unwrap();
    guard(|| {
        let _ = serde_json::from_str::<purl::GenericPurl<String>>(&js).map(|p| serde_json::to_string(&p));
        let _ = serde_json::from_str::<purl::Purl>(&js).map(|p| serde_json::to_string(&p));
    })
    .map_err(|m| format!("serde round trip of {js} panicked: {m}"))?;
    if s.starts_with("pkg:") {
        st.nontrivial(s, || json!({ "string": if s.len() > 300 { format!("{} bytes starting {:?}", s.len(), s.chars().take(80).collect::<String>()) } else { s.to_string() } }));
    }
    Ok(())
}

fn o_string(s: &String, st: &mut Stats) -> Result<(), String> {
    parse_all(s, st)
}

fn o_spelled(c: &SpelledCase, st: &mut Stats) -> Result<(), String> {
    parse_all(&spell(&c.tuple, &c.choices).assemble(), st)
}

fn o_fault(c: &crate::fault::FaultCase, st: &mut Stats) -> Result<(), String> {
    match crate::fault::inject(c) {
        Some(f) => parse_all(&f.text, st),
        None => Ok(()),
    }
}

// ---- formatting into sinks that fail

fn sinks<I: ParseInst>(s: &str, st: &mut Stats) -> Result<(), String> {
    use std::fmt::Write as _;
    let Ok(Ok(p)) = parse::<I>(s) else { return Ok(()) };
    let Ok(full) = text(&p) else { return Ok(()) };
    // every capacity up to the length of the string (all of them for short strings, a spread for long ones)
    let step = (full.len() / 48).max(1);
    let mut limit = 0;
    while limit <= full.len() {
        let r = guard(|| {
            let mut sink = crate::history::Bounded { left: limit };
            let a = write!(sink, "{p}");
            let mut sink2 = crate::history::Bounded { left: limit };
            let b = write!(sink2, "{p:?}");
            (a.is_ok(), b.is_ok())
        });
        match r {
            Err(m) => return Err(format!("[{}] formatting {full:?} into a sink that fails after {limit} bytes panicked: {m}", I::NAME)),
            Ok((ok, _)) => {
                if ok != (limit >= full.len()) {
                    return Err(format!("[{}] formatting {full:?} into a sink of {limit} bytes reported {}", I::NAME, if ok { "success" } else { "failure" }));
                }
            },
        }
        limit += step;
    }
    // a sink that formats a PURL itself while it is being written to (a logger that prefixes every
    // line with a context value): re-entering Display on the same thread must work
    {
        struct Reentrant<'a, T: purl::PurlShape> {
            other: &'a purl::GenericPurl<T>,
            out: String,
            inner: usize,
        }
        impl<T: purl::PurlShape> std::fmt::Write for Reentrant<'_, T> {
            fn write_str(&mut self, s: &str) -> std::fmt::Result {
                self.inner += self.other.to_string().len();
                self.out.push_str(s);
                Ok(())
            }
        }
        let r = guard(|| {
            let mut sink = Reentrant { other: &p, out: String::new(), inner: 0 };
            let ok = write!(sink, "{p}").is_ok();
            (ok, sink.out)
        });
        match r {
            Err(m) => return Err(format!("[{}] formatting {full:?} into a sink that itself formats a PURL panicked: {m}", I::NAME)),
            Ok((ok, out)) => {
                if !ok || out != full {
                    return Err(format!("[{}] formatting {full:?} into a sink that itself formats a PURL gives {out:?} (ok = {ok})", I::NAME));
                }
            },
        }
        if let Err(m) = crate::api::check_flags(&p, &full, I::NAME) {
            if m.contains("panicked") {
                return Err(m);
            }
        }
    }
    st.class("formatted-into-failing-sinks");
    st.class_if(full.contains('?'), "formatted-with-qualifiers");
    Ok(())
}

fn o_sinks(c: &SpelledCase, st: &mut Stats) -> Result<(), String> {
    let s = spell(&c.tuple, &c.choices).assemble();
    sinks::<IStr>(&s, st)?;
    sinks::<ISmall>(&s, st)?;
    sinks::<ITyped>(&s, st)?;
    st.nontrivial(&("sinks", s.as_str()), || json!({ "string": s }));
    Ok(())
}

// ---- long inputs

#[derive(Clone, Debug, Serialize, Deserialize)]
pub struct LongCase {
    pub kind: u8,
    /// size parameter (bytes or count), capped so that the input stays within 1 MiB
    pub n: u32,
    pub unit: String,
}

pub fn long_input(c: &LongCase) -> String {
    const MIB: usize = 1 << 20;
    let unit: &str = if c.unit.is_empty() { "a" } else { &c.unit };
    let n = c.n as usize;
    let rep = |u: &str, bytes: usize| u.repeat((bytes / u.len().max(1)).max(1));
    let mut s = match c.kind % 14 {
        0 => format!("pkg:t/{}", rep(unit, n)),
        1 => format!("pkg:t/n@{}", rep(unit, n)),
        2 => format!("pkg:t/n?k={}", rep(unit, n)),
        3 => format!("pkg:t/n#{}", rep(unit, n)),
        4 => format!("pkg:t/{}n", rep(&format!("{unit}/"), n)),
        5 => format!("pkg:t/n#{}", rep(&format!("{unit}/"), n)),
        6 => {
            // up to 20 000 qualifiers, ascending / descending / repeated keys
            let count = (n / 12).clamp(1, 20_000);
            let mut q = String::with_capacity(count * 12);
            for i in 0..count {
                let k = match c.kind / 12 % 3 {
                    0 => i,
                    1 => count - i,
                    _ => i % 7,
                };
                if i > 0 {
                    q.push('&');
                }
                q.push_str(&format!("k{k:05}={unit}"));
            }
            format!("pkg:t/n?{q}")
        },
        7 => format!("pkg:t/n?checksum={}", rep(&format!("{unit}:00,"), n)),
        8 => format!("pkg:{}/n", rep(unit, n)),
        9 => format!("pkg:{}", rep(unit, n)),
        10 => format!("pkg:t/n?{}=v", rep(unit, n)),
        // long digests: lower-case, upper-case and mixed hex, even and odd lengths
        12 => format!("pkg:t/n?checksum=a:{}", rep(["ab", "AB", "aB", "0"][(c.kind / 14 % 4) as usize], n.min(8192))),
        13 => format!("pkg:t/n?checksum=a:00,b:{},c:{}", rep("Cd", n.min(4096)), rep("ef", 300)),
        _ => rep(unit, n),
    };
    if s.len() > MIB {
        let mut cut = MIB;
        while !s.is_char_boundary(cut) {
            cut -= 1;
        }
        s.truncate(cut);
    }
    s
}

fn o_long(c: &LongCase, st: &mut Stats) -> Result<(), String> {
    let s = long_input(c);
    st.class("long-input");
    st.class_if(s.len() >= 1 << 19, "input-of-half-a-MiB-or-more");
    parse_all(&s, st)
}

fn glong() -> BoxedStrategy<LongCase> {
    (
        any::<u8>(),
        prop_oneof![3 => 1_000u32..100_000, 1 => 100_000u32..1_100_000],
        prop_oneof![
            3 => select(&["a", "/", "%41", "%", "%2F", "%80", "@", "?", "#", "&", "=", ".", "..", "é", "k=v&", "a:00,", "\u{10ffff}", " ", "+", ":"][..]).prop_map(str::to_string),
            1 => gtext(1),
        ],
    )
        .prop_map(|(kind, n, unit)| LongCase { kind, n, unit })
        .boxed()
}

// ---- builder programs

fn prog<I: Inst>(p: &Program, st: &mut Stats) -> Result<(), String> {
    match run::<I>(p) {
        (Outcome::Panicked(m), _) => Err(format!("[{}] builder program {p:?} panicked: {m}", I::NAME)),
        (Outcome::BadType(_), _) => Ok(()),
        (_, Some(v)) => {
            st.class("program-builds");
            guard(move || {
                let s = v.to_string();
                let _ = format!("{v:?}");
                let b = v.clone().into_builder();
                let _ = b.build().map(|p| p.to_string());
                let _ = serde_json::to_string(&s);
            })
            .map_err(|m| format!("[{}] using the PURL built by {p:?} panicked: {m}", I::NAME))
        },
        _ => {
            st.class("program-fails");
            Ok(())
        },
    }
}

fn o_program(c: &ProgramCase, st: &mut Stats) -> Result<(), String> {
    if c.typed {
        prog::<ITyped>(&c.program, st)?;
    } else {
        prog::<IStr>(&c.program, st)?;
        prog::<ICowB>(&c.program, st)?;
        prog::<ICowO>(&c.program, st)?;
        prog::<ISmall>(&c.program, st)?;
    }
    st.class_if(
        c.program.ops.iter().any(|o| matches!(o, crate::buildprog::Op::Checksum(Some(e)) if e.is_empty())),
        "empty-checksum-serialised",
    );
    if c.program.ops.len() >= 2 {
        st.nontrivial(&(c.typed, &c.program), || json!(c.program));
    }
    Ok(())
}

/// A name through the typed builder and, percent-encoded, through the typed parser and as the
/// algorithm of a checksum.
fn o_program_and_parse(c: &ProgramCase, st: &mut Stats) -> Result<(), String> {
    o_program(c, st)?;
    let enc: String = c.program.name.bytes().map(|b| format!("%{b:02X}")).collect();
    o_string(&format!("pkg:{}/{enc}@1", c.program.ty), st)?;
    o_string(&format!("pkg:generic/n?checksum={enc}:00ff"), st)?;
    st.nontrivial(&("lc", c.program.ty.as_str(), c.program.name.as_str()), || json!({ "type": c.program.ty, "name": c.program.name }));
    Ok(())
}

// ---- typed checksum API with arbitrary arguments

#[derive(Clone, Debug, Serialize, Deserialize)]
pub struct CkApi {
    pub text: String,
    pub entries: Vec<(String, CkVal)>,
    pub lookups: Vec<String>,
}

fn o_ckapi(c: &CkApi, st: &mut Stats) -> Result<(), String> {
    guard(|| {
        // an empty one, first of all
        let empty = Checksum::default();
        let _ = SmallString::try_from(empty.clone());
        let _ = empty.iter().count();
        let _ = empty.algorithms().count();
        let _ = empty.get::<Vec<u8>>("x");
        let mut q = Qualifiers::default();
        let _ = q.try_insert_typed(empty);
        let _ = q.try_get_typed::<Checksum>();
        // from text
        if let Ok(ck) = Checksum::try_from(c.text.as_str()) {
            for a in c.lookups.iter().map(String::as_str).chain(ck.algorithms()) {
                let _ = ck.get_raw(a);
                let _ = ck.get::<Vec<u8>>(a);
                let _ = ck.get::<[u8; 4]>(a);
                let _ = ck.get::<[u8; 20]>(a);
                if let Some(v) = ck.get_value(a) {
                    let _ = v.raw();
                    let _ = v.decode::<Vec<u8>>();
                    let _ = v.decode::<[u8; 4]>();
                    let _ = v.len();
                    let _ = format!("{v:?}");
                }
            }
            for (a, v) in &ck {
                let _ = (a.len(), v.raw().len());
            }
            let _ = format!("{ck:?}");
            let _ = SmallString::try_from(ck.clone());
            let _ = SmallString::try_from(ck);
        }
        // built by calls
        let mut ck = make_checksum(&c.entries);
        for a in &c.lookups {
            let _ = ck.get_raw(a);
            let _ = ck.get::<Vec<u8>>(a);
            let _ = ck.get_value(a).map(|v| v.decode::<[u8; 4]>());
            ck.remove(a);
            ck.insert_raw(a, c.text.clone());
            ck.insert(a, c.text.as_bytes());
        }
        let _ = SmallString::try_from(ck.clone());
        let mut q = Qualifiers::default();
        let _ = q.try_insert_typed(ck);
        let _ = q.try_get_typed::<Checksum>().map(|c| c.map(|c| c.iter().count()));
    })
    .map_err(|m| format!("a Checksum / ChecksumValue operation panicked: {m} (case {c:?})"))?;
    st.class("checksum-api-program");
    st.nontrivial(&(&c.text, &c.entries, &c.lookups), || json!(c));
    Ok(())
}

// ---- documented panics: permitted, never required; the collection stays usable afterwards

#[derive(Clone, Debug, Serialize, Deserialize)]
pub struct IndexCase {
    pub init: Vec<(String, String)>,
    pub key: String,
}

fn o_index(c: &IndexCase, st: &mut Stats) -> Result<(), String> {
    let mut q = Qualifiers::default();
    for (k, v) in &c.init {
        let _ = q.insert(k.as_str(), v.as_str());
    }
    let present = is_valid_key(&c.key) && q.contains_key(c.key.as_str());
    let r = guard(|| q[c.key.as_str()].to_string());
    let r2 = guard(|| {
        q[c.key.as_str()].push('x');
    });
    if present && (r.is_err() || r2.is_err()) {
        return Err(format!("indexing the present key {:?} panicked: {r:?} {r2:?}", c.key));
    }
    st.class(if present { "index-present" } else { "index-absent (documented panic permitted)" });
    // whatever happened, the collection is still consistent
    guard(|| {
        let _ = q.iter().count();
        let _ = q.insert("zz", "1");
        let _ = q.remove("zz");
    })
    .map_err(|m| format!("the collection is unusable after indexing {:?}: {m}", c.key))?;
    st.nontrivial(&(&c.init, &c.key), || json!(c));
    Ok(())
}

fn fuzz_seed_cases(target: &'static str) -> Vec<crate::fuzzrun::FuzzInput> {
    let root = std::path::PathBuf::from(std::env::var("VERIF_ROOT").unwrap_or_else(|_| "/verif".into()));
    crate::fuzzrun::seed_corpus(&root, target, "C06")
}

fn extra(ctx: &mut crate::engine::Ctx) -> serde_json::Value {
    let a = crate::fuzzrun::campaign(ctx, "fz_roundtrip", "fuzz-inputs:fz_roundtrip", 3_200_000, 8192);
    let b = crate::fuzzrun::campaign(ctx, "fz_api", "fuzz-inputs:fz_api", 6_400_000, 2048);
    json!([a, b])
}

pub fn sections() -> Vec<Box<dyn Section>> {
    vec![
        Box::new(Listed {
            name: "fuzz-inputs:fz_roundtrip".into(),
            cases: Box::new(|_| fuzz_seed_cases("fz_roundtrip")),
            oracle: crate::fuzzrun::oracle,
        }),
        Box::new(Listed { name: "fuzz-inputs:fz_api".into(), cases: Box::new(|_| fuzz_seed_cases("fz_api")), oracle: crate::fuzzrun::oracle }),
        Box::new(Listed { name: "corpus".into(), cases: Box::new(|_| corpus().into_iter().map(str::to_string).collect()), oracle: o_string }),
        Box::new(Random {
            name: "parse-any-string".into(),
            quick: 150_000,
            thorough: 5_000_000,
            strategy: Box::new(|_| gany_string()),
            oracle: o_string,
            required: vec!["accepted", "refused-past-the-scheme-check"],
        }),
        Box::new(Random {
            name: "parse-soup-and-mutations".into(),
            quick: 250_000,
            thorough: 8_000_000,
            strategy: Box::new(|_| prop_oneof![gsoup(), gcorpus_mut()].boxed()),
            oracle: o_string,
            required: vec!["accepted", "refused-past-the-scheme-check"],
        }),
        Box::new(Random {
            name: "parse-spelled".into(),
            quick: 100_000,
            thorough: 3_000_000,
            strategy: Box::new(|_| gspelled()),
            oracle: o_spelled,
            required: vec!["accepted"],
        }),
        Box::new(Random {
            name: "parse-faulted".into(),
            quick: 80_000,
            thorough: 2_500_000,
            strategy: Box::new(|_| gfault()),
            oracle: o_fault,
            required: vec!["refused-past-the-scheme-check"],
        }),
        Box::new(Enumerated {
            name: "short-names-over-length-changing-case-letters".into(),
            total: Box::new(|t: Tier| 2 * crate::props::c10::names_total(crate::chars::length_changing_alphabet(), t.pick(3, 4))),
            make: Box::new(|t: Tier, i| {
                let a = crate::chars::length_changing_alphabet();
                let n = crate::props::c10::names_total(a, t.pick(3, 4));
                let name = crate::props::c10::name_from_index(a, t.pick(3, 4), i % n);
                Some(ProgramCase { program: crate::buildprog::Program { ty: ["nuget", "pypi"][(i / n) as usize].into(), name, ops: vec![] }, typed: true })
            }),
            oracle: o_program_and_parse,
            required: vec![],
            complete: true,
        }),
        Box::new(Enumerated {
            name: "names-near-the-inline-capacity".into(),
            total: Box::new(|_| 2 * crate::chars::names_near_inline_capacity().len() as u64),
            make: Box::new(|_, i| {
                let v = crate::chars::names_near_inline_capacity();
                Some(ProgramCase {
                    program: crate::buildprog::Program { ty: ["pypi", "nuget"][(i as usize) / v.len()].into(), name: v[(i as usize) % v.len()].clone(), ops: vec![] },
                    typed: true,
                })
            }),
            oracle: o_program_and_parse,
            required: vec![],
            complete: true,
        }),
        Box::new(Enumerated {
            name: "every-scalar-next-to-a-case-changing-letter".into(),
            total: Box::new(|_| 0x110000 * 4),
            make: Box::new(|_, i| {
                let c = char::from_u32((i / 4) as u32)?;
                let (ty, name) = match i % 4 {
                    0 => ("nuget", format!("\u{c9}{c}")),
                    1 => ("nuget", format!("{c}\u{3a3}a")),
                    2 => ("pypi", format!("{c}\u{c9}")),
                    _ => ("pypi", format!("\u{c9}-{c}")),
                };
                Some(ProgramCase { program: crate::buildprog::Program { ty: ty.into(), name, ops: vec![] }, typed: true })
            }),
            oracle: o_program_and_parse,
            required: vec![],
            complete: true,
        }),
        Box::new(Enumerated {
            name: "parse-token-language".into(),
            total: Box::new(|t: Tier| strata_total(&strata(t.pick(4, 5), t.pick(5, 6)))),
            make: Box::new(|t: Tier, i| strata_make(&strata(t.pick(4, 5), t.pick(5, 6)), i)),
            oracle: o_string,
            required: vec!["accepted", "refused-past-the-scheme-check"],
            complete: true,
        }),
        Box::new(Random {
            name: "parse-long-inputs".into(),
            quick: 400,
            thorough: 3_000,
            strategy: Box::new(|_| glong()),
            oracle: o_long,
            required: vec!["long-input", "input-of-half-a-MiB-or-more"],
        }),
        Box::new(Random {
            name: "builder-programs-string-cow-smallstring".into(),
            quick: 120_000,
            thorough: 4_000_000,
            strategy: Box::new(|_| gprogram(false).prop_map(|program| ProgramCase { program, typed: false }).boxed()),
            oracle: o_program,
            required: vec!["program-builds", "program-fails", "empty-checksum-serialised"],
        }),
        Box::new(Random {
            name: "builder-programs-package-type".into(),
            quick: 100_000,
            thorough: 3_000_000,
            strategy: Box::new(|_| gprogram(true).prop_map(|program| ProgramCase { program, typed: true }).boxed()),
            oracle: o_program,
            required: vec!["program-builds", "program-fails", "empty-checksum-serialised"],
        }),
        Box::new(Random {
            name: "qualifier-operation-sequences".into(),
            quick: 80_000,
            thorough: 2_500_000,
            strategy: Box::new(|_| crate::props::c11::gcase_for_c06()),
            oracle: crate::props::c11::o_case_pub,
            required: vec![],
        }),
        Box::new(Random {
            name: "checksum-histories".into(),
            quick: 40_000,
            thorough: 1_200_000,
            strategy: Box::new(|_| crate::props::c12::gcase_pub()),
            oracle: crate::props::c12::o_case_pub,
            required: vec![],
        }),
        Box::new(Random {
            name: "checksum-api-arbitrary-arguments".into(),
            quick: 80_000,
            thorough: 2_500_000,
            strategy: Box::new(|_| {
                (
                    prop_oneof![2 => gck_text(), 1 => gtext(0)],
                    gck_entries(),
                    proptest::collection::vec(prop_oneof![galgorithm(), gtext(0)], 0..=4),
                )
                    .prop_map(|(text, entries, lookups)| CkApi { text, entries, lookups })
                    .boxed()
            }),
            oracle: o_ckapi,
            required: vec!["checksum-api-program"],
        }),
        Box::new(Random {
            name: "format-into-failing-sinks".into(),
            quick: 40_000,
            thorough: 1_200_000,
            strategy: Box::new(|_| gspelled()),
            oracle: o_sinks,
            required: vec!["formatted-into-failing-sinks", "formatted-with-qualifiers"],
        }),
        Box::new(Random {
            name: "user-shape-parse (panics only)".into(),
            quick: 40_000,
            thorough: 1_200_000,
            strategy: Box::new(|_| crate::props::c14::gparse_case()),
            oracle: crate::props::c14::c06_parse,
            required: vec![],
        }),
        Box::new(Random {
            name: "user-shape-build (panics only)".into(),
            quick: 40_000,
            thorough: 1_200_000,
            strategy: Box::new(|_| crate::props::c14::gbuild_case()),
            oracle: crate::props::c14::c06_build,
            required: vec![],
        }),
        Box::new(Random {
            name: "user-shape-rebuild (panics only)".into(),
            quick: 30_000,
            thorough: 1_000_000,
            strategy: Box::new(|_| crate::props::c14::grebuild_case()),
            oracle: crate::props::c14::c06_rebuild,
            required: vec![],
        }),
        Box::new(Random {
            name: "indexing".into(),
            quick: 40_000,
            thorough: 1_000_000,
            strategy: Box::new(|_| {
                (proptest::collection::vec((gkey_any(), gtext(0)), 0..=4), gkey_any()).prop_map(|(init, key)| IndexCase { init, key }).boxed()
            }),
            oracle: o_index,
            required: vec!["index-present", "index-absent (documented panic permitted)"],
        }),
    ]
}

pub fn prop() -> Prop {
    Prop {
        id: "C06",
        sections,
        rule: "Parsing (String, SmallString, PackageType, and through serde) of arbitrary strings, token soup, mutated \
               conformance strings, legal and single-fault spellings, the complete bounded token language and long inputs \
               up to 1 MiB (long names / versions / values / keys / types, thousands of segments, up to 20 000 \
               qualifiers, long checksums); builder programs for all five built-in parameters followed by build(), \
               to_string(), Debug, into_builder(), serde; operation sequences over the whole public API of Qualifiers / \
               Entry / iterators / QualifierKey; histories and arbitrary-argument calls on Checksum and ChecksumValue \
               incl. an empty Checksum. Harness and library are built with overflow checks and debug assertions. Oracle: \
               catch_unwind around every call; a panic is a violation unless it is one of the three documented ones \
               (indexing an absent key is exercised and permitted). Non-trivial = a parse input that passes the scheme \
               check, or an API program of two or more calls; distinct by hash.",
        assumptions: &[
            "capacities requested are at most 64 (capacity overflow is Vec's contract); inputs at most 1 MiB; qualifier counts at most 20 000",
            "non-termination is bounded by a watchdog (exit 2, inconclusive)",
            "the crate has no unsafe code, so no sanitizer beyond overflow checks and debug assertions is used",
            "thorough tier: libFuzzer targets fz_roundtrip and fz_api (cargo-fuzz, debug assertions and overflow checks on); the quick tier replays the committed seed corpus through the same oracles",
        ],
        extra: Some(extra),
    }
}
