//! C02 - parsing recovers exactly the components of any legal spelling.

use proptest::prelude::*;
use serde::{Deserialize, Serialize};
use serde_json::json;

use crate::api::{known_type_index, observe, parse, text, ISmall, IStr, ITyped, ParseInst};
use crate::engine::{Enumerated, Random, Section, Stats, Tier};
use crate::gens::{strata, strata_make, strata_total};
use crate::model::{strict, Obs, Strict};
use crate::props::Prop;
use crate::spell::{gchoices, gtuple, spell, Spelled, Tuple};

#[derive(Clone, Debug, Serialize, Deserialize)]
pub struct TwoSpellings {
    pub tuple: Tuple,
    pub a: Vec<u8>,
    pub b: Vec<u8>,
}

fn gtwo() -> BoxedStrategy<TwoSpellings> {
    (prop_oneof![gtuple(false), gtuple(true)], gchoices(), gchoices())
        .prop_map(|(tuple, a, b)| TwoSpellings { tuple, a, b })
        .boxed()
}

fn one<I: ParseInst>(s: &str, expected: &Obs) -> Result<(purl::GenericPurl<I::T>, String), String> {
    let p = match parse::<I>(s) {
        Err(m) => return Err(format!("[{}] parsing the legal spelling {s:?} panicked: {m}", I::NAME)),
        Ok(Err(k)) => return Err(format!("[{}] the legal spelling {s:?} of {expected:?} is refused with {k}", I::NAME)),
        Ok(Ok(p)) => p,
    };
    let o = observe(&p);
    if o != *expected {
        return Err(format!("[{}] {s:?} parses to {o:?}, expected {expected:?}", I::NAME));
    }
    let t = text(&p).map_err(|m| format!("[{}] to_string() panicked for {s:?}: {m}", I::NAME))?;
    Ok((p, t))
}

fn both<I: ParseInst>(sa: &str, sb: &str, expected: &Obs) -> Result<(), String> {
    let (pa, ta) = one::<I>(sa, expected)?;
    let (pb, tb) = one::<I>(sb, expected)?;
    if pa != pb {
        return Err(format!("[{}] two spellings of one tuple give unequal PURLs: {sa:?} vs {sb:?}", I::NAME));
    }
    if ta != tb {
        return Err(format!("[{}] two spellings of one tuple print differently: {sa:?} -> {ta:?}, {sb:?} -> {tb:?}", I::NAME));
    }
    Ok(())
}

fn count_freedoms(sp: &Spelled, st: &mut Stats) {
    for f in &sp.freedoms {
        st.class(f);
    }
}

fn o_two(c: &TwoSpellings, st: &mut Stats) -> Result<(), String> {
    if !c.tuple.in_domain() {
        return Err("bad replay case: tuple outside the domain of C02".into());
    }
    let spa = spell(&c.tuple, &c.a);
    let spb = spell(&c.tuple, &c.b);
    let (sa, sb) = (spa.assemble(), spb.assemble());
    both::<IStr>(&sa, &sb, &c.tuple.expected(false))?;
    both::<ISmall>(&sa, &sb, &c.tuple.expected(false))?;
    let typed = known_type_index(&c.tuple.ty.to_ascii_lowercase()).is_some()
        && !(c.tuple.ty.eq_ignore_ascii_case("maven") && c.tuple.ns.is_empty());
    if typed {
        st.class("typed-instantiation");
        both::<ITyped>(&sa, &sb, &c.tuple.expected(true))?;
        let e = c.tuple.expected(true);
        st.class_if(e.name != c.tuple.name, "name-changed-by-type-rule");
    }
    count_freedoms(&spa, st);
    count_freedoms(&spb, st);
    for (sp, s) in [(&spa, &sa), (&spb, &sb)] {
        if sp.freedoms.len() >= 2 {
            st.nontrivial(s.as_str(), || json!({ "spelling": s, "freedoms": sp.freedoms, "expected": c.tuple.expected(typed) }));
        }
    }
    Ok(())
}

pub fn o_token(s: &String, st: &mut Stats) -> Result<(), String> {
    match strict(s) {
        Strict::Accept(obs) => {
            st.class("strict-accept");
            let _ = one::<IStr>(s, &obs)?;
            let _ = one::<ISmall>(s, &obs)?;
            st.class_if(!obs.quals.is_empty(), "strict-accept-with-qualifiers");
            st.class_if(obs.quals.iter().any(|(k, v)| k == "checksum" && v.contains(',')), "strict-accept-multi-checksum");
            st.class_if(obs.ns.is_some(), "strict-accept-with-namespace");
            st.class_if(obs.subpath.is_some(), "strict-accept-with-subpath");
            st.class_if(obs.version.is_some(), "strict-accept-with-version");
            if s.contains('%') || s.bytes().any(|b| b.is_ascii_uppercase()) || s.contains("//") || s.contains("/.") {
                st.nontrivial_enumerated(|| json!({ "string": s, "components": obs }));
            }
        },
        Strict::Reject(_) => st.class("strict-reject (judged by C05)"),
        Strict::Unknown(_) => st.class("strict-unknown (not judged)"),
    }
    Ok(())
}

/// A PURL with *very many* qualifiers (thousands to tens of thousands of distinct keys). Any digest,
/// bucket or narrow index the implementation keeps per key meets its collisions by the birthday
/// effect here: n keys are n^2/2 pairs in a single parse. The case is a pure function of
/// (seed, n, order); keys are 3-8 characters over the key alphabet, distinct ignoring case.
#[derive(Clone, Debug, Serialize, Deserialize)]
pub struct ManyKeys {
    pub seed: u64,
    pub n: u32,
    /// 0 written in sorted order, 1 in reverse order, 2 interleaved from both ends
    pub order: u8,
}

pub fn many_keys(seed: u64, n: u32) -> Vec<(String, String)> {
    const FIRST: &[u8] = b"abcdefghijklmnopqrstuvwxyz";
    const REST: &[u8] = b"abcdefghijklmnopqrstuvwxyz0123456789._-";
    let mut seen = std::collections::BTreeSet::new();
    let mut i = 0u64;
    while (seen.len() as u32) < n {
        let mut z = crate::engine::mix(&[seed, i]);
        i += 1;
        let len = 3 + (z % 6) as usize;
        z /= 6;
        let mut k = String::with_capacity(len);
        k.push(FIRST[(z % 26) as usize] as char);
        z /= 26;
        for _ in 1..len {
            k.push(REST[(z % 39) as usize] as char);
            z /= 39;
        }
        if k != "checksum" {
            seen.insert(k);
        }
    }
    seen.into_iter().enumerate().map(|(j, k)| (k, format!("v{j}"))).collect()
}

pub fn gmany() -> BoxedStrategy<ManyKeys> {
    prop_oneof![
        // the orders that insert in the middle of the collection cost n^2 in the implementation: smaller n
        3 => (any::<u64>(), 1_000u32..6_000, 0u8..3).prop_map(|(seed, n, order)| ManyKeys { seed, n, order }),
        3 => (any::<u64>(), 20_000u32..40_000).prop_map(|(seed, n)| ManyKeys { seed, n, order: 0 }),
        1 => (any::<u64>(), 65_530u32..66_000).prop_map(|(seed, n)| ManyKeys { seed, n, order: 0 }),
    ]
    .boxed()
}

fn o_many(c: &ManyKeys, st: &mut Stats) -> Result<(), String> {
    if c.n > 200_000 || c.order > 2 {
        return Err("bad replay case: many-keys parameters".into());
    }
    let sorted = many_keys(c.seed, c.n);
    let n = sorted.len();
    let order: Vec<usize> = match c.order {
        0 => (0..n).collect(),
        1 => (0..n).rev().collect(),
        _ => (0..n).map(|i| if i % 2 == 0 { i / 2 } else { n - 1 - i / 2 }).collect(),
    };
    let mut s = String::from("pkg:npm/%40scope/name@1.0?");
    for (j, &i) in order.iter().enumerate() {
        if j > 0 {
            s.push('&');
        }
        let (k, v) = &sorted[i];
        // every third key in upper case (key letter case is a listed freedom)
        if crate::engine::mix(&[c.seed, i as u64, 7]) % 3 == 0 {
            s.push_str(&k.to_ascii_uppercase());
        } else {
            s.push_str(k);
        }
        s.push('=');
        s.push_str(v);
    }
    s.push_str("#sub");
    let expected = Obs {
        ty: "npm".into(),
        ns: Some("@scope".into()),
        name: "name".into(),
        version: Some("1.0".into()),
        quals: sorted,
        subpath: Some("sub".into()),
    };
    let short = |e: String| if e.len() > 600 { format!("{} ... [{} bytes]", e.chars().take(600).collect::<String>(), e.len()) } else { e };
    let (_, ta) = one::<IStr>(&s, &expected).map_err(short)?;
    let (_, tb) = one::<ISmall>(&s, &expected).map_err(short)?;
    let (_, tc) = one::<ITyped>(&s, &expected).map_err(short)?;
    if ta != tb || ta != tc {
        return Err(format!("the three instantiations print a PURL with {n} qualifiers differently (seed {}, order {})", c.seed, c.order));
    }
    st.class(match c.n {
        0..=9_999 => "thousands of keys",
        10_000..=65_535 => "tens of thousands of keys",
        _ => "more than 65535 keys",
    });
    st.class_if(c.order != 0, "not written in sorted order");
    st.nontrivial(&(c.seed, c.n, c.order), || json!({ "seed": c.seed, "keys": c.n, "order": c.order, "string_bytes": s.len() }));
    Ok(())
}

fn o_hist(h: &crate::history::Hist<TwoSpellings>, st: &mut Stats) -> Result<(), String> {
    let s = spell(&h.inner.tuple, &h.inner.a).assemble();
    crate::history::judge(h, &s, o_two, st)
}

fn o_session(s: &crate::history::Session<TwoSpellings>, st: &mut Stats) -> Result<(), String> {
    crate::history::judge_session(s, o_two, st)
}

pub fn sections() -> Vec<Box<dyn Section>> {
    vec![
        Box::new(Random {
            name: "sessions-of-two-spellings".into(),
            quick: 60,
            thorough: 2000,
            strategy: Box::new(|_| crate::history::gsession(gtwo())),
            oracle: o_session,
            required: vec!["judged inside a session", "session of 1000 or more cases"],
        }),
        Box::new(Random {
            name: "two-spellings-after-a-prelude".into(),
            quick: 16_000,
            thorough: 400_000,
            strategy: Box::new(|_| crate::history::ghist(gtwo())),
            oracle: o_hist,
            required: vec!["typed-instantiation"],
        }),
        Box::new(Random {
            name: "two-spellings".into(),
            quick: 300_000,
            thorough: 10_000_000,
            strategy: Box::new(|_| gtwo()),
            oracle: o_two,
            required: vec![
                "typed-instantiation",
                "name-changed-by-type-rule",
                "type-letter-case",
                "type-with-digit-or-.+-",
                "key-letter-case",
                "key-with-digit-or-._-",
                "algorithm-letter-case",
                "hex-digit-case",
                "percent-escape",
                "lower-case-hex-escape",
                "escape-of-unreserved-char",
                "raw-utf8",
                "extra-slash-after-scheme",
                "extra-slash-around-namespace",
                "extra-slash-around-subpath",
                "raw-dot-subpath-piece",
                "raw-dotdot-subpath-piece",
                "qualifiers-reordered",
                "checksum-entries-reordered",
                "multi-algorithm-checksum",
                "empty-valued-qualifier-interleaved",
                "raw-@-left-of-separator",
                "raw-?-left-of-separator",
                "raw-#-left-of-separator",
                "raw-/-in-version",
            ],
        }),
        Box::new(Random {
            name: "very-many-qualifiers".into(),
            quick: 160,
            thorough: 4_000,
            strategy: Box::new(|_| gmany()),
            oracle: o_many,
            required: vec!["thousands of keys", "tens of thousands of keys", "more than 65535 keys", "not written in sorted order"],
        }),
        Box::new(Enumerated {
            name: "token-language-strict-accept".into(),
            total: Box::new(|t: Tier| strata_total(&strata(t.pick(5, 6), t.pick(5, 7)))),
            make: Box::new(|t: Tier, i| strata_make(&strata(t.pick(5, 6), t.pick(5, 7)), i)),
            oracle: o_token,
            required: vec![
                "strict-accept",
                "strict-accept-with-qualifiers",
                "strict-accept-multi-checksum",
                "strict-accept-with-namespace",
                "strict-accept-with-subpath",
                "strict-accept-with-version",
            ],
            complete: true,
        }),
    ]
}

pub fn prop() -> Prop {
    Prop {
        id: "C02",
        sections,
        rule: "A: random component tuples over the stated domain, each spelled twice independently using only the freedoms \
               the statement lists; both spellings must be accepted, report exactly the tuple (after the type's name rule) \
               and give equal PURLs with identical strings, for String, SmallString and (known types) PackageType. \
               Non-trivial = a spelling that uses at least two different freedoms; distinct by hash of the spelled string. \
               A2: PURLs with thousands to tens of thousands of distinct qualifier keys (n^2/2 key pairs in one parse, \
               so per-key digests, buckets and narrow indices meet their collisions), same oracle. \
               B: every string of the bounded token language that the independent left-to-right recogniser M-strict \
               accepts must be accepted with M-strict's components; non-trivial = such a string containing an escape, an \
               upper-case letter, a doubled slash or a dot piece (distinct by construction).",
        assumptions: &[
            "only the spelling freedoms listed in the statement are generated as 'legal' (DESIGN.md section 6.1)",
            "M-strict answers Unknown (no judgement) for repeated '#', '?', '@', bare '%', empty items, leading-digit types",
        ],
        extra: None,
    }
}
