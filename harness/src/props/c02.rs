//! C02 - parsing recovers exactly the components of any legal spelling.

use proptest::prelude::*;
use serde::{Deserialize, Serialize};
use serde_json::json;

use crate::api::{known_type_index, observe, parse, text, ISmall, IStr, ITyped, ParseInst};
use crate::engine::{Enumerated, Random, Section, Stats, Tier};
use crate::gens::{strata, strata_make, strata_total};
use crate::model::{strict, Obs, Strict};
use crate::props::Prop;
use crate::spell::{gchoices, gtuple, spell, Spelled, Tuple};

#[derive(Clone, Debug, Serialize, Deserialize)]
pub struct TwoSpellings {
    pub tuple: Tuple,
    pub a: Vec<u8>,
    pub b: Vec<u8>,
}

fn gtwo() -> BoxedStrategy<TwoSpellings> {
    (prop_oneof![gtuple(false), gtuple(true)], gchoices(), gchoices())
        .prop_map(|(tuple, a, b)| TwoSpellings { tuple, a, b })
        .boxed()
}

fn one<I: ParseInst>(s: &str, expected: &Obs) -> Result<(purl::GenericPurl<I::T>, String), String> {
    let p = match parse::<I>(s) {
        Err(m) => return Err(format!("[{}] parsing the legal spelling {s:?} panicked: {m}", I::NAME)),
        Ok(Err(k)) => return Err(format!("[{}] the legal spelling {s:?} of {expected:?} is refused with {k}", I::NAME)),
        Ok(Ok(p)) => p,
    };
    let o = observe(&p);
    if o != *expected {
        return Err(format!("[{}] {s:?} parses to {o:?}, expected {expected:?}", I::NAME));
    }
    let t = text(&p).map_err(|m| format!("[{}] to_string() panicked for {s:?}: {m}", I::NAME))?;
    Ok((p, t))
}

fn both<I: ParseInst>(sa: &str, sb: &str, expected: &Obs) -> Result<(), String> {
    let (pa, ta) = one::<I>(sa, expected)?;
    let (pb, tb) = one::<I>(sb, expected)?;
    if pa != pb {
        return Err(format!("[{}] two spellings of one tuple give unequal PURLs: {sa:?} vs {sb:?}", I::NAME));
    }
    if ta != tb {
        return Err(format!("[{}] two spellings of one tuple print differently: {sa:?} -> {ta:?}, {sb:?} -> {tb:?}", I::NAME));
    }
    Ok(())
}

fn count_freedoms(sp: &Spelled, st: &mut Stats) {
    for f in &sp.freedoms {
        st.class(f);
    }
}

fn o_two(c: &TwoSpellings, st: &mut Stats) -> Result<(), String> {
    if !c.tuple.in_domain() {
        return Err("bad replay case: tuple outside the domain of C02".into());
    }
    let spa = spell(&c.tuple, &c.a);
    let spb = spell(&c.tuple, &c.b);
    let (sa, sb) = (spa.assemble(), spb.assemble());
    both::<IStr>(&sa, &sb, &c.tuple.expected(false))?;
    both::<ISmall>(&sa, &sb, &c.tuple.expected(false))?;
    let typed = known_type_index(&c.tuple.ty.to_ascii_lowercase()).is_some()
        && !(c.tuple.ty.eq_ignore_ascii_case("maven") && c.tuple.ns.is_empty());
    if typed {
        st.class("typed-instantiation");
        both::<ITyped>(&sa, &sb, &c.tuple.expected(true))?;
        let e = c.tuple.expected(true);
        st.class_if(e.name != c.tuple.name, "name-changed-by-type-rule");
    }
    count_freedoms(&spa, st);
    count_freedoms(&spb, st);
    for (sp, s) in [(&spa, &sa), (&spb, &sb)] {
        if sp.freedoms.len() >= 2 {
            st.nontrivial(s.as_str(), || json!({ "spelling": s, "freedoms": sp.freedoms, "expected": c.tuple.expected(typed) }));
        }
    }
    Ok(())
}

pub fn o_token(s: &String, st: &mut Stats) -> Result<(), String> {
    match strict(s) {
        Strict::Accept(obs) => {
            st.class("strict-accept");
            let _ = one::<IStr>(s, &obs)?;
            let _ = one::<ISmall>(s, &obs)?;
            st.class_if(!obs.quals.is_empty(), "strict-accept-with-qualifiers");
            st.class_if(obs.quals.iter().any(|(k, v)| k == "checksum" && v.contains(',')), "strict-accept-multi-checksum");
            st.class_if(obs.ns.is_some(), "strict-accept-with-namespace");
            st.class_if(obs.subpath.is_some(), "strict-accept-with-subpath");
            st.class_if(obs.version.is_some(), "strict-accept-with-version");
            if s.contains('%') || s.bytes().any(|b| b.is_ascii_uppercase()) || s.contains("//") || s.contains("/.") {
                st.nontrivial_enumerated(|| json!({ "string": s, "components": obs }));
            }
        },
        Strict::Reject(_) => st.class("strict-reject (judged by C05)"),
        Strict::Unknown(_) => st.class("strict-unknown (not judged)"),
    }
    Ok(())
}

fn o_hist(h: &crate::history::Hist<TwoSpellings>, st: &mut Stats) -> Result<(), String> {
    let s = spell(&h.inner.tuple, &h.inner.a).assemble();
    crate::history::judge(h, &s, o_two, st)
}

pub fn sections() -> Vec<Box<dyn Section>> {
    vec![
        Box::new(Random {
            name: "two-spellings-after-a-prelude".into(),
            quick: 16_000,
            thorough: 400_000,
            strategy: Box::new(|_| crate::history::ghist(gtwo())),
            oracle: o_hist,
            required: vec!["typed-instantiation"],
        }),
        Box::new(Random {
            name: "two-spellings".into(),
            quick: 300_000,
            thorough: 10_000_000,
            strategy: Box::new(|_| gtwo()),
            oracle: o_two,
            required: vec![
                "typed-instantiation",
                "name-changed-by-type-rule",
                "type-letter-case",
                "type-with-digit-or-.+-",
                "key-letter-case",
                "key-with-digit-or-._-",
                "algorithm-letter-case",
                "hex-digit-case",
                "percent-escape",
                "lower-case-hex-escape",
                "escape-of-unreserved-char",
                "raw-utf8",
                "extra-slash-after-scheme",
                "extra-slash-around-namespace",
                "extra-slash-around-subpath",
                "raw-dot-subpath-piece",
                "raw-dotdot-subpath-piece",
                "qualifiers-reordered",
                "checksum-entries-reordered",
                "multi-algorithm-checksum",
                "empty-valued-qualifier-interleaved",
                "raw-@-left-of-separator",
                "raw-?-left-of-separator",
                "raw-#-left-of-separator",
                "raw-/-in-version",
            ],
        }),
        Box::new(Enumerated {
            name: "token-language-strict-accept".into(),
            total: Box::new(|t: Tier| strata_total(&strata(t.pick(5, 6), t.pick(5, 7)))),
            make: Box::new(|t: Tier, i| strata_make(&strata(t.pick(5, 6), t.pick(5, 7)), i)),
            oracle: o_token,
            required: vec![
                "strict-accept",
                "strict-accept-with-qualifiers",
                "strict-accept-multi-checksum",
                "strict-accept-with-namespace",
                "strict-accept-with-subpath",
                "strict-accept-with-version",
            ],
            complete: true,
        }),
    ]
}

pub fn prop() -> Prop {
    Prop {
        id: "C02",
        sections,
        rule: "A: random component tuples over the stated domain, each spelled twice independently using only the freedoms \
               the statement lists; both spellings must be accepted, report exactly the tuple (after the type's name rule) \
               and give equal PURLs with identical strings, for String, SmallString and (known types) PackageType. \
               Non-trivial = a spelling that uses at least two different freedoms; distinct by hash of the spelled string. \
               B: every string of the bounded token language that the independent left-to-right recogniser M-strict \
               accepts must be accepted with M-strict's components; non-trivial = such a string containing an escape, an \
               upper-case letter, a doubled slash or a dot piece (distinct by construction).",
        assumptions: &[
            "only the spelling freedoms listed in the statement are generated as 'legal' (DESIGN.md section 6.1)",
            "M-strict answers Unknown (no judgement) for repeated '#', '?', '@', bare '%', empty items, leading-digit types",
        ],
        extra: None,
    }
}
