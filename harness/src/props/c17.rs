//! C17 - behaviour does not depend on optional feature flags.
//!
//! `featbin` (a tiny line-protocol server that depends on `purl` only) is built once per feature
//! set by `./check`; this module feeds all builds one deterministic request stream and compares
//! the answers line by line.

use std::io::{BufRead, BufReader, BufWriter, Write};
use std::path::{Path, PathBuf};
use std::process::{Child, ChildStdin, ChildStdout, Command, Stdio};
use std::time::Instant;

use proptest::strategy::{Strategy, ValueTree};
use proptest::test_runner::{Config, RngAlgorithm, TestRng, TestRunner};
use serde::{Deserialize, Serialize};
use serde_json::{json, Value};

use crate::chars::{gtext, gtype, KNOWN_TYPES};
use crate::engine::{mix, Ctx, Failure, Section, SectionReport, Tier};
use crate::fault::inject;
use crate::gens::{gcorpus_mut, gsoup, strata, strata_make, strata_total};
use crate::props::c01::{gfault, gspelled};
use crate::props::Prop;
use crate::spell::spell;

pub const BUILDS: &[(&str, &str)] =
    &[("none", ""), ("pt", "package-type"), ("default", "package-type,smartstring"), ("serde", "package-type,smartstring,serde")];

#[derive(Clone, Debug, Serialize, Deserialize, PartialEq, Eq, Hash)]
pub enum Request {
    /// parse with the type-agnostic and the typed PURL
    Parse(String),
    /// builder: type, name, namespace, version, subpath, qualifiers
    Build { ty: String, name: String, ns: String, version: String, subpath: String, quals: Vec<(String, String)> },
    /// a qualifier collection filled by insert; lookups of the probes and comparisons of every stored key with them
    Collection { pairs: Vec<(String, String)>, probes: Vec<String> },
}

fn hex(s: &str) -> String {
    if s.is_empty() {
        "-".into()
    } else {
        s.bytes().map(|b| format!("{b:02x}")).collect()
    }
}

impl Request {
    /// (type-agnostic line, typed line)
    fn lines(&self) -> (String, String) {
        match self {
            Request::Parse(s) => (format!("P {}", hex(s)), format!("T {}", hex(s))),
            Request::Build { ty, name, ns, version, subpath, quals } => {
                let mut tail = format!("{} {} {} {} {}", hex(ty), hex(name), hex(ns), hex(version), hex(subpath));
                for (k, v) in quals {
                    tail.push_str(&format!(" {}={}", hex(k), hex(v)));
                }
                (format!("B {tail}"), format!("U {tail}"))
            },
            Request::Collection { pairs, probes } => {
                let mut line = String::from("Q");
                for (k, v) in pairs {
                    line.push_str(&format!(" {}={}", hex(k), hex(v)));
                }
                line.push_str(" |");
                for p in probes {
                    line.push_str(&format!(" {}", hex(p)));
                }
                // there is no typed variant of this request: the typed line is a typed parse of the empty string
                (line, "T -".to_string())
            },
        }
    }
}

struct Server {
    name: &'static str,
    child: Child,
    stdin: BufWriter<ChildStdin>,
    stdout: BufReader<ChildStdout>,
}

impl Server {
    fn spawn(root: &Path, name: &'static str) -> Result<Server, String> {
        let exe: PathBuf = root.join("featbin/target").join(name).join("release/featbin");
        let mut child = Command::new(&exe)
            .stdin(Stdio::piped())
            .stdout(Stdio::piped())
            .stderr(Stdio::null())
            .spawn()
            .map_err(|e| format!("cannot start {}: {e}", exe.display()))?;
        let stdin = BufWriter::new(child.stdin.take().unwrap());
        let stdout = BufReader::new(child.stdout.take().unwrap());
        Ok(Server { name, child, stdin, stdout })
    }

    fn ask(&mut self, line: &str) -> Result<String, String> {
        writeln!(self.stdin, "{line}\nFLUSH").and_then(|_| self.stdin.flush()).map_err(|e| format!("{}: write failed: {e}", self.name))?;
        let mut out = String::new();
        self.stdout.read_line(&mut out).map_err(|e| format!("{}: read failed: {e}", self.name))?;
        if out.is_empty() {
            return Err(format!("{}: server closed its output", self.name));
        }
        Ok(out.trim_end().to_string())
    }
}

impl Drop for Server {
    fn drop(&mut self) {
        let _ = self.child.kill();
        let _ = self.child.wait();
    }
}

fn spawn_all(root: &Path) -> Result<Vec<Server>, String> {
    BUILDS.iter().map(|(n, _)| Server::spawn(root, n)).collect()
}

/// Ask all builds; Ok(None) when they agree, Ok(Some(description)) when they do not.
fn disagreement(servers: &mut [Server], req: &Request) -> Result<Option<String>, String> {
    let (generic, typed) = req.lines();
    let mut g = Vec::new();
    let mut t = Vec::new();
    for s in servers.iter_mut() {
        g.push((s.name, s.ask(&generic)?));
        t.push((s.name, s.ask(&typed)?));
    }
    if g.iter().any(|(_, a)| *a != g[0].1) {
        return Ok(Some(format!("type-agnostic API: {g:?}")));
    }
    if t[0].1 != "NA" {
        return Ok(Some(format!("the build without package-type answered a typed request: {:?}", t[0])));
    }
    if t[1..].iter().any(|(_, a)| *a != t[1].1) {
        return Ok(Some(format!("typed API: {:?}", &t[1..])));
    }
    Ok(None)
}

fn shrink(servers: &mut [Server], req: &Request) -> Request {
    let mut best = req.clone();
    let mut budget = 2000;
    loop {
        let mut improved = false;
        let candidates: Vec<Request> = match &best {
            Request::Parse(s) => {
                let cs: Vec<char> = s.chars().collect();
                (0..cs.len()).map(|i| Request::Parse(cs.iter().enumerate().filter(|(j, _)| *j != i).map(|(_, c)| *c).collect())).collect()
            },
            Request::Collection { .. } => Vec::new(),
            Request::Build { ty, name, ns, version, subpath, quals } => {
                let mut v = Vec::new();
                let base = |ty: &str, name: &str, ns: &str, version: &str, subpath: &str, quals: &[(String, String)]| Request::Build {
                    ty: ty.into(),
                    name: name.into(),
                    ns: ns.into(),
                    version: version.into(),
                    subpath: subpath.into(),
                    quals: quals.to_vec(),
                };
                if !ns.is_empty() {
                    v.push(base(ty, name, "", version, subpath, quals));
                }
                if !version.is_empty() {
                    v.push(base(ty, name, ns, "", subpath, quals));
                }
                if !subpath.is_empty() {
                    v.push(base(ty, name, ns, version, "", quals));
                }
                for i in 0..quals.len() {
                    let mut q = quals.clone();
                    q.remove(i);
                    v.push(base(ty, name, ns, version, subpath, &q));
                }
                let cut = |s: &str| -> Vec<String> {
                    let cs: Vec<char> = s.chars().collect();
                    (0..cs.len()).map(|i| cs.iter().enumerate().filter(|(j, _)| *j != i).map(|(_, c)| *c).collect()).collect()
                };
                for n in cut(name) {
                    v.push(base(ty, &n, ns, version, subpath, quals));
                }
                for n in cut(ns) {
                    v.push(base(ty, name, &n, version, subpath, quals));
                }
                for n in cut(ty) {
                    v.push(base(&n, name, ns, version, subpath, quals));
                }
                v
            },
        };
        let candidates = if let Request::Collection { pairs, probes } = &best {
            let mut v = Vec::new();
            for i in 0..pairs.len() {
                let mut p = pairs.clone();
                p.remove(i);
                v.push(Request::Collection { pairs: p, probes: probes.clone() });
            }
            for i in 0..probes.len() {
                let mut p = probes.clone();
                p.remove(i);
                v.push(Request::Collection { pairs: pairs.clone(), probes: p });
            }
            v
        } else {
            candidates
        };
        for c in candidates {
            if budget == 0 {
                return best;
            }
            budget -= 1;
            if let Ok(Some(_)) = disagreement(servers, &c) {
                best = c;
                improved = true;
                break;
            }
        }
        if !improved {
            return best;
        }
    }
}

fn generate<S: Strategy>(strategy: S, n: usize, seed: u64, out: &mut Vec<Request>, f: impl Fn(S::Value) -> Option<Request>) {
    let mut bytes = [0u8; 32];
    for (i, b) in bytes.iter_mut().enumerate() {
        *b = (mix(&[seed, i as u64]) & 0xff) as u8;
    }
    let mut runner = TestRunner::new_with_rng(Config::default(), TestRng::from_seed(RngAlgorithm::ChaCha, &bytes));
    for _ in 0..n {
        if let Ok(tree) = strategy.new_tree(&mut runner) {
            if let Some(r) = f(tree.current()) {
                out.push(r);
            }
        }
    }
}

fn request_stream(tier: Tier, seed: u64) -> (Vec<Request>, Vec<(&'static str, usize)>) {
    let mut v = Vec::new();
    let mut parts = Vec::new();
    let st = strata(tier.pick(3, 4), tier.pick(3, 4));
    for i in 0..strata_total(&st) {
        if let Some(s) = strata_make(&st, i) {
            v.push(Request::Parse(s));
        }
    }
    // the exhaustive short-name set of C08 / C10, for the two types with a name rule
    {
        use crate::props::c10::{name_from_index, names_total, NAME_ALPHABET};
        let max = tier.pick(4, 5);
        for ty in ["pypi", "nuget"] {
            for i in 0..names_total(NAME_ALPHABET, max) {
                let t = crate::spell::Tuple {
                    ty: ty.into(),
                    ns: vec![],
                    name: name_from_index(NAME_ALPHABET, max, i),
                    version: None,
                    quals: vec![],
                    checksum: vec![],
                    subpath: vec![],
                };
                v.push(Request::Parse(crate::spell::spell_plain(&t)));
            }
        }
    }
    // every letter whose lower-casing changes its UTF-8 length, at every position of a run of upper-case
    // letters that is 20 to 24 bytes long - around the inline capacity of the small-string type, which only
    // some feature sets use - as checksum algorithm and as nuget / pypi name
    for c in crate::chars::length_changing_alphabet() {
        for len in 20..=24usize {
            for pos in 0..=len {
                let name: String = format!("{}{c}{}", "B".repeat(pos), "B".repeat(len - pos));
                let enc: String = name.bytes().map(|b| format!("%{b:02X}")).collect();
                v.push(Request::Parse(format!("pkg:generic/x?checksum={enc}:00ff")));
                v.push(Request::Parse(format!("pkg:nuget/{enc}@1")));
                v.push(Request::Parse(format!("pkg:pypi/{enc}@1")));
            }
        }
    }
    for name in crate::chars::names_near_inline_capacity() {
        if name.contains(',') {
            continue;
        }
        let enc: String = name.bytes().map(|b| format!("%{b:02X}")).collect();
        v.push(Request::Parse(format!("pkg:generic/x?checksum={enc}:00ff")));
        v.push(Request::Parse(format!("pkg:nuget/{enc}@1")));
        v.push(Request::Parse(format!("pkg:pypi/{enc}@1")));
    }
    parts.push(("token-language", v.len()));
    // the random parts are generated in parallel, each from its own fixed seed, and concatenated
    // in a fixed order: the stream is a function of (tier, seed) only
    let chunks: usize = 8;
    let gen_strings = |kind: usize, chunk: usize| -> Vec<Request> {
        let mut out = Vec::new();
        let s = mix(&[seed, kind as u64, chunk as u64]);
        match kind {
            0 => generate(gspelled(), tier.pick(40_000, 800_000) / chunks, s, &mut out, |c| Some(Request::Parse(spell(&c.tuple, &c.choices).assemble()))),
            1 => generate(gfault(), tier.pick(20_000, 400_000) / chunks, s, &mut out, |c| inject(&c).map(|f| Request::Parse(f.text))),
            2 => generate(gsoup(), tier.pick(20_000, 400_000) / chunks, s, &mut out, |s| Some(Request::Parse(s))),
            3 => generate(gcorpus_mut(), tier.pick(20_000, 400_000) / chunks, s, &mut out, |s| Some(Request::Parse(s))),
            6 => {
                // keys, and probes that are the keys seen through every kind of case folding (the features
                // bring different case machinery: unicase for the type table, char-wise lower-casing elsewhere)
                let fold = |s: &str, mode: u8| -> String {
                    match mode % 9 {
                        0 => s.to_string(),
                        1 => s.to_uppercase(),
                        2 => s.replace('s', "\u{17f}"),
                        3 => s.replace("ss", "\u{df}").replace("SS", "\u{1e9e}"),
                        4 => s.replace('k', "\u{212a}").replace('K', "\u{212a}"),
                        5 => s.replace("st", "\u{fb06}").replace("fi", "\u{fb01}").replace("ff", "\u{fb00}"),
                        6 => s.replace('i', "\u{131}").replace('I', "\u{130}"),
                        7 => s.chars().map(|c| if c.is_ascii_alphanumeric() { char::from_u32(c as u32 + 0xfee0).unwrap_or(c) } else { c }).collect(),
                        _ => s.replace('a', "\u{e5}").replace('o', "\u{3bf}"),
                    }
                };
                let key = proptest::prop_oneof![
                    3 => crate::chars::gkey(),
                    2 => crate::chars::gliteral(),
                    2 => proptest::sample::select(&["checksum", "repository_url", "vcs_url", "download_url", "file_name", "classifier", "ss", "st", "fi", "k", "Kiss", "offset", "first", "is", "type"][..]).prop_map(str::to_string),
                ];
                let pairs = proptest::collection::vec((key, gtext(0)), 1..=4);
                let strat = (pairs, proptest::collection::vec((proptest::arbitrary::any::<u8>(), proptest::arbitrary::any::<u8>(), gtext(0)), 1..=5));
                generate(strat, tier.pick(40_000, 800_000) / chunks, s, &mut out, move |(pairs, raw): (Vec<(String, String)>, Vec<(u8, u8, String)>)| {
                    let probes: Vec<String> = raw
                        .into_iter()
                        .map(|(which, mode, other)| if mode % 10 == 9 { other } else { fold(&pairs[which as usize % pairs.len()].0, mode) })
                        .collect();
                    Some(Request::Collection { pairs, probes })
                })
            },
            5 => generate(crate::props::c07::gpieces(), tier.pick(20_000, 400_000) / chunks, s, &mut out, |c| {
                Some(Request::Parse(crate::props::c07::strings_for(&c, if c.pieces.len() % 2 == 0 { "t" } else { "golang" })))
            }),
            _ => {
                let ty = proptest::prop_oneof![
                    2 => gtype(),
                    3 => proptest::sample::select(KNOWN_TYPES).prop_map(str::to_string),
                    1 => proptest::sample::select(&["", "!", "T", "NuGet", "PYPI", "9p", "a b"][..]).prop_map(str::to_string),
                ];
                let fields = (
                    ty,
                    crate::buildprog::garg(),
                    crate::buildprog::garg(),
                    crate::buildprog::garg(),
                    crate::buildprog::garg(),
                    proptest::collection::vec((crate::buildprog::gkey_any(), proptest::prop_oneof![gtext(0), crate::buildprog::gck_text()]), 0..=3),
                );
                generate(fields, tier.pick(50_000, 1_000_000) / chunks, s, &mut out, |(ty, name, ns, version, subpath, quals)| {
                    Some(Request::Build { ty, name, ns, version, subpath, quals })
                })
            },
        }
        out
    };
    let jobs: Vec<(usize, usize)> = [0usize, 1, 2, 3, 5, 6, 4].iter().flat_map(|k| (0..chunks).map(move |c| (*k, c))).collect();
    let results: Vec<Vec<Request>> = std::thread::scope(|scope| {
        let hs: Vec<_> = jobs.iter().map(|(k, c)| { let g = &gen_strings; scope.spawn(move || g(*k, *c)) }).collect();
        hs.into_iter().map(|h| h.join().unwrap_or_default()).collect()
    });
    let n0 = v.len();
    for ((k, _), r) in jobs.iter().zip(results) {
        if *k == 4 && parts.len() == 1 {
            parts.push(("random-strings", v.len() - n0));
        }
        v.extend(r);
    }
    let strings = parts.get(1).map(|p| p.1).unwrap_or(0);
    parts.push(("builder-inputs", v.len() - n0 - strings));
    (v, parts)
}

pub struct FeatureDifferential;

fn bulk_run(root: &Path, name: &'static str, lines: &[String]) -> Result<Vec<String>, String> {
    let exe: PathBuf = root.join("featbin/target").join(name).join("release/featbin");
    let mut child = Command::new(&exe)
        .stdin(Stdio::piped())
        .stdout(Stdio::piped())
        .stderr(Stdio::null())
        .spawn()
        .map_err(|e| format!("cannot start {}: {e}", exe.display()))?;
    let stdin = child.stdin.take().unwrap();
    let stdout = child.stdout.take().unwrap();
    let out = std::thread::scope(|scope| {
        scope.spawn(move || {
            let mut w = BufWriter::with_capacity(1 << 20, stdin);
            for l in lines {
                crate::engine::tick();
                if writeln!(w, "{l}").is_err() {
                    break;
                }
            }
            let _ = w.flush();
        });
        let r = BufReader::with_capacity(1 << 20, stdout);
        r.lines().map_while(Result::ok).collect::<Vec<String>>()
    });
    let _ = child.wait();
    if out.len() != lines.len() {
        return Err(format!("build '{name}' answered {} of {} requests", out.len(), lines.len()));
    }
    Ok(out)
}

impl Section for FeatureDifferential {
    fn name(&self) -> &str {
        "feature-differential"
    }

    fn replay(&self, case: &Value) -> Result<(), String> {
        let req: Request = serde_json::from_value(case.clone()).map_err(|e| format!("bad replay case: {e}"))?;
        let root = PathBuf::from(std::env::var("VERIF_ROOT").unwrap_or_else(|_| "/verif".into()));
        let mut servers = spawn_all(&root).map_err(|e| format!("bad replay case: {e}"))?;
        match disagreement(&mut servers, &req).map_err(|e| format!("bad replay case: {e}"))? {
            None => Ok(()),
            Some(d) => Err(format!("the feature builds disagree on {req:?}: {d}")),
        }
    }

    fn run(&self, ctx: &mut Ctx) {
        let t0 = Instant::now();
        let (reqs, parts) = request_stream(ctx.tier, ctx.seed);
        let mut lines = Vec::with_capacity(reqs.len() * 2);
        for r in &reqs {
            let (g, t) = r.lines();
            lines.push(g);
            lines.push(t);
        }
        let root = ctx.root.clone();
        let results: Vec<Result<Vec<String>, String>> = std::thread::scope(|scope| {
            let hs: Vec<_> = BUILDS.iter().map(|(n, _)| { let (root, lines) = (&root, &lines); scope.spawn(move || bulk_run(root, n, lines)) }).collect();
            hs.into_iter().map(|h| h.join().unwrap_or_else(|_| Err("worker panicked".into()))).collect()
        });
        let mut outs = Vec::new();
        for r in results {
            match r {
                Ok(o) => outs.push(o),
                Err(e) => {
                    ctx.infra_errors.push(format!("C17: {e} (are the featbin builds present? ./check builds them)"));
                    return;
                },
            }
        }
        let mut classes: std::collections::BTreeMap<&'static str, u64> = Default::default();
        let mut nontrivial = 0u64;
        let mut seen: std::collections::HashSet<u64> = std::collections::HashSet::new();
        let mut samples = Vec::new();
        let mut first_bad: Option<usize> = None;
        for (i, _r) in reqs.iter().enumerate() {
            let (g, t) = (2 * i, 2 * i + 1);
            let generic_same = outs.iter().all(|o| o[g] == outs[0][g]);
            let typed_same = outs[0][t] == "NA" && outs[2][t] == outs[1][t] && outs[3][t] == outs[1][t];
            if !(generic_same && typed_same) {
                first_bad = Some(i);
                break;
            }
            let a = &outs[2][g];
            let interesting = a.starts_with("OK") || (a.starts_with("ERR") && !a.contains("UnsupportedUrlScheme")) || a.starts_with("Q ");
            *classes
                .entry(if a.starts_with("OK") {
                    "accepted"
                } else if a.starts_with("ERR") {
                    "refused"
                } else if a.starts_with("Q ") {
                    "collection-request (lookups and key comparisons)"
                } else {
                    "other"
                })
                .or_insert(0) += 1;
            if outs[2][t].starts_with("OK") {
                *classes.entry("typed-accepted").or_insert(0) += 1;
            }
            if a == "PANIC" || outs[2][t] == "PANIC" {
                *classes.entry("panic-in-all-builds (C06's business)").or_insert(0) += 1;
            }
            if interesting && seen.insert(crate::engine::str_hash(&lines[g])) {
                nontrivial += 1;
                if samples.len() < 6 && i % 9973 == 0 {
                    samples.push(json!({ "request": reqs[i], "answer": a }));
                }
            }
        }
        if samples.is_empty() {
            if let Some(r) = reqs.first() {
                samples.push(json!({ "request": r, "answer": outs[2][0] }));
            }
        }
        if let Some(i) = first_bad {
            let mut req = reqs[i].clone();
            let mut msg = format!(
                "feature builds disagree on request {i}: generic {:?}, typed {:?}",
                outs.iter().map(|o| o[2 * i].clone()).collect::<Vec<_>>(),
                outs.iter().map(|o| o[2 * i + 1].clone()).collect::<Vec<_>>()
            );
            if let Ok(mut servers) = spawn_all(&ctx.root) {
                req = shrink(&mut servers, &req);
                if let Ok(Some(d)) = disagreement(&mut servers, &req) {
                    msg = format!("the feature builds disagree on {req:?}: {d}");
                }
            }
            ctx.failure = Some(Failure {
                section: self.name().to_string(),
                case: serde_json::to_value(&req).unwrap(),
                message: msg,
                found_by: format!("request {i} of the deterministic stream (seed {})", ctx.seed),
            });
        }
        for (name, n) in &parts {
            *classes.entry(match *name {
                "token-language" => "stream:token-language",
                "random-strings" => "stream:random-strings",
                _ => "stream:builder-inputs",
            }).or_insert(0) += *n as u64;
        }
        ctx.reports.push(SectionReport {
            name: self.name().to_string(),
            kind: "differential",
            evaluations: reqs.len() as u64,
            distinct_nontrivial: nontrivial,
            classes,
            samples,
            excluded: Default::default(),
            exhaustive: false,
            space: None,
            wall_s: t0.elapsed().as_secs_f64(),
        });
    }
}

pub fn sections() -> Vec<Box<dyn Section>> {
    vec![Box::new(FeatureDifferential)]
}

pub fn prop() -> Prop {
    Prop {
        id: "C17",
        sections,
        rule: "One deterministic request stream (the bounded token language at L = 3 / 4, every pypi / nuget name up to length 4 / 5 over the 11-letter name alphabet, generated legal and single-fault \
               spellings, token soup, mutated conformance strings, builder inputs with arbitrary text, qualifier collections \
               probed with their own keys seen through nine kinds of case folding) is answered by the \
               same line-protocol server built four times: no features, package-type, package-type+smartstring (default), \
               default+serde. Oracle (differential): identical outcome lines (Ok + type + accessors + canonical string, or \
               Err + variant + Display text) for the type-agnostic API across all four builds and for the typed API \
               across the three that have it. Non-trivial = a request that is accepted or refused later than the scheme \
               check, or a collection request; distinct by hash of the request line.",
        assumptions: &["the four feature sets named in the property are the ones compared", "each server is a separate process; answers are compared as text"],
        extra: None,
    }
}
