//! C15 - package type names map one-to-one, case-insensitively.

use std::str::FromStr;

use proptest::prelude::*;
use purl::{PackageType, PurlShape};
use serde_json::json;

use crate::api::{parse, ITyped};
use crate::chars::{gtext, is_valid_type, KNOWN_TYPES};
use crate::engine::{guard, Enumerated, Listed, Random, Section, Stats, Tier};
use crate::props::Prop;

pub const ALPHABET: &[char] = &[
    'c', 'a', 'r', 'g', 'o', 'e', 'm', 'l', 'n', 'v', 'p', 'u', 't', 'y', 'i', // the 15 letters of the names
    'ſ', '\u{212A}', 'ı', 'İ', 'ａ', 'ｃ', 'Ｇ', 'ɡ', '\u{0307}', ' ', '\0', // look-alikes and padding
    'G', 'M', 'N', 'P', 'C',
];

/// Other type names of the PURL spec (and near misses).
pub const OTHER_TYPES: &[&str] = &[
    "alpm", "apk", "bitbucket", "bitnami", "cocoapods", "composer", "conan", "conda", "cpan", "cran", "deb", "docker", "generic",
    "github", "hackage", "hex", "huggingface", "luarocks", "mlflow", "nix", "oci", "pub", "qpkg", "rpm", "swid", "swift", "go", "pip",
    "mvn", "rubygems", "crates", "node", "python", "dotnet", "java", "gems", "cargo ", " cargo", "cargo\0", "pypi\n", "npm/", "",
];

fn lev_le1(a: &[char], b: &[char]) -> bool {
    let (la, lb) = (a.len(), b.len());
    if la.abs_diff(lb) > 1 {
        return false;
    }
    let mut i = 0;
    while i < la && i < lb && a[i] == b[i] {
        i += 1;
    }
    if la == lb {
        a[i.min(la)..].iter().skip(1).eq(b[i.min(lb)..].iter().skip(1)) || i == la
    } else if la > lb {
        a[i + 1..] == b[i..]
    } else {
        a[i..] == b[i + 1..]
    }
}

fn near_a_name(s: &str) -> bool {
    let forms = [
        s.to_ascii_lowercase().chars().collect::<Vec<char>>(),
        s.chars().flat_map(|c| c.to_lowercase()).collect::<Vec<char>>(),
        s.chars().flat_map(|c| c.to_uppercase()).flat_map(|c| c.to_lowercase()).collect::<Vec<char>>(),
    ];
    KNOWN_TYPES.iter().any(|n| {
        let nc: Vec<char> = n.chars().collect();
        forms.iter().any(|f| lev_le1(f, &nc))
    })
}

/// The judgement for one string.
fn judge_string(s: &str, st: &mut Stats) -> Result<(), String> {
    let r = guard(|| PackageType::from_str(s)).map_err(|m| format!("PackageType::from_str({s:?}) panicked: {m}"))?;
    let lower = s.to_ascii_lowercase();
    let is_name = KNOWN_TYPES.contains(&lower.as_str());
    match r {
        Ok(v) => {
            if v.name() != lower {
                return Err(format!("{s:?} is taken for the package type {:?} although its ASCII-lower-cased form is {lower:?}", v.name()));
            }
            st.class("parses");
        },
        Err(_) => {
            if is_name {
                return Err(format!("{s:?} is a letter-case variant of the name {lower:?} but does not parse"));
            }
            st.class("refused");
        },
    }
    // the same through the PURL parser, for syntactically valid type strings
    if is_valid_type(s) {
        let text = format!("pkg:{s}/g/n");
        match parse::<ITyped>(&text) {
            Err(m) => return Err(format!("parsing {text:?} panicked: {m}")),
            Ok(Ok(p)) => {
                if p.package_type().name() != lower {
                    return Err(format!("{text:?} is given the type {:?}", p.package_type().name()));
                }
            },
            Ok(Err(k)) => {
                if is_name {
                    return Err(format!("{text:?} has a known type but is refused with {k}"));
                }
            },
        }
    }
    if !KNOWN_TYPES.contains(&s) && near_a_name(s) {
        st.class("near-miss");
        st.nontrivial(s, || json!({ "string": s, "parses": is_name }));
    }
    Ok(())
}

fn o_string(s: &String, st: &mut Stats) -> Result<(), String> {
    judge_string(s, st)
}

fn o_variant(name: &String, st: &mut Stats) -> Result<(), String> {
    let v = PackageType::from_str(name).map_err(|_| format!("the name {name:?} does not parse"))?;
    let display = v.to_string();
    let as_ref: &str = v.as_ref();
    let from: &'static str = v.into();
    let pt = v.package_type().into_owned();
    let js = serde_json::to_string(&v).map_err(|e| e.to_string())?;
    let all = [v.name(), display.as_str(), as_ref, from, pt.as_str()];
    if all.iter().any(|x| x != name) || js != format!("\"{name}\"") {
        return Err(format!("the forms of {name:?} disagree: {all:?}, serde {js}"));
    }
    if *name != name.to_ascii_lowercase() {
        return Err(format!("the name {name:?} is not lower-case"));
    }
    let back: PackageType = serde_json::from_str(&js).map_err(|e| format!("serde form {js} does not deserialise: {e}"))?;
    if back != v {
        return Err(format!("serde round trip of {name:?} gives {back:?}"));
    }
    // every letter-case variant parses to the variant
    let chars: Vec<char> = name.chars().collect();
    for mask in 0u32..(1 << chars.len()) {
        let s: String = chars.iter().enumerate().map(|(i, c)| if mask >> i & 1 == 1 { c.to_ascii_uppercase() } else { *c }).collect();
        match PackageType::from_str(&s) {
            Ok(x) if x == v => {},
            other => return Err(format!("case variant {s:?} of {name:?} gives {other:?}")),
        }
        st.class("case-variant");
        if mask != 0 {
            st.nontrivial(s.as_str(), || json!({ "case_variant": s, "of": name }));
        }
    }
    // distinct names for distinct variants
    for other in KNOWN_TYPES {
        if other != name && PackageType::from_str(other).ok() == Some(v) {
            return Err(format!("{other:?} and {name:?} map to the same variant"));
        }
    }
    Ok(())
}

fn short_total(max: u32) -> u64 {
    let k = ALPHABET.len() as u64;
    (0..=max).map(|l| k.pow(l)).sum()
}

fn short_make(mut idx: u64) -> Option<String> {
    let k = ALPHABET.len() as u64;
    let mut len = 0u32;
    loop {
        let n = k.pow(len);
        if idx < n {
            break;
        }
        idx -= n;
        len += 1;
    }
    let mut s = String::new();
    for _ in 0..len {
        s.push(ALPHABET[(idx % k) as usize]);
        idx /= k;
    }
    Some(s)
}

fn neighbours() -> Vec<String> {
    let mut out = Vec::new();
    for name in KNOWN_TYPES {
        let c: Vec<char> = name.chars().collect();
        for i in 0..=c.len() {
            for a in ALPHABET {
                let mut v = c.clone();
                v.insert(i, *a);
                out.push(v.iter().collect());
            }
        }
        for i in 0..c.len() {
            for a in ALPHABET {
                let mut v = c.clone();
                v[i] = *a;
                out.push(v.iter().collect());
                let mut u = c.clone();
                u[i] = a.to_ascii_uppercase();
                out.push(u.iter().collect());
            }
            let mut v = c.clone();
            v.remove(i);
            out.push(v.iter().collect());
        }
        // doubled, padded, joined
        out.push(format!("{name}{name}"));
        out.push(format!("{name} "));
        out.push(format!(" {name}"));
        out.push(format!("{name}\0"));
        out.push(format!("{name}/"));
        out.push(format!("pkg:{name}"));
        out.push(name.to_uppercase());
        out.push(name.chars().flat_map(|c| c.to_uppercase()).collect::<String>().replace('K', "\u{212A}").replace('S', "ſ"));
    }
    out.extend(OTHER_TYPES.iter().map(|s| s.to_string()));
    out
}

/// Lean judgement for the big enumerations: parses iff the ASCII-lower-cased form is a name.
fn o_lean(s: &String, st: &mut Stats) -> Result<(), String> {
    match PackageType::from_str(s) {
        Ok(v) => {
            if !v.name().eq_ignore_ascii_case(s) {
                return Err(format!("{s:?} is taken for the package type {:?}", v.name()));
            }
            st.class("parses");
        },
        Err(_) => {
            if KNOWN_TYPES.iter().any(|n| n.eq_ignore_ascii_case(s)) {
                return Err(format!("{s:?} is a letter-case variant of a name but does not parse"));
            }
        },
    }
    Ok(())
}

/// name[..k] + any scalar (+ the rest of the name from k or k+1 on): every substitution and insertion, and
/// every truncated name followed by one arbitrary character
fn scalar_edit(range: u64, idx: u64) -> Option<String> {
    let scalar = (idx % range) as u32;
    let mut rest = idx / range;
    let c = char::from_u32(scalar)?;
    let form = rest % 3;
    rest /= 3;
    let pos = (rest % 7) as usize;
    let name = KNOWN_TYPES[((rest / 7) % 7) as usize];
    if pos > name.len() {
        return None;
    }
    Some(match form {
        0 => format!("{}{c}{}", &name[..pos], &name[pos..]),
        1 => format!("{}{c}{}", &name[..pos], name.get(pos + 1..).unwrap_or("")),
        _ => format!("{}{c}", &name[..pos]),
    })
}

const ALNUM36: &[u8] = b"abcdefghijklmnopqrstuvwxyz0123456789";

fn alnum_string(mut idx: u64) -> Option<String> {
    let mut len = 1u32;
    loop {
        let n = 36u64.pow(len);
        if idx < n {
            break;
        }
        idx -= n;
        len += 1;
    }
    let mut s = String::with_capacity(len as usize);
    for _ in 0..len {
        s.push(ALNUM36[(idx % 36) as usize] as char);
        idx /= 36;
    }
    Some(s)
}

/// A block of type names: `prefix` followed by every suffix of `suffix_len` characters over the type
/// alphabet (letters, digits, '.', '+', '-'), judged in one tight loop without allocating. The blocks
/// with a 2- or 3-character prefix and 4-character suffixes are all well-formed names of 6 and 7
/// characters (9.3 x 10^10): none of them is a known name except `golang`.
#[derive(Clone, Debug, serde::Serialize, serde::Deserialize)]
pub struct TypeBlock {
    pub prefix: String,
    pub suffix_len: u8,
}

const TYPE_FIRST: &[u8] = b"abcdefghijklmnopqrstuvwxyz";
const TYPE_REST: &[u8] = b"abcdefghijklmnopqrstuvwxyz0123456789.+-";

fn type_block(idx: u64) -> Option<TypeBlock> {
    // first the 26 * 39 two-character prefixes, then the 26 * 39^2 three-character ones
    let two = 26 * 39;
    let (mut i, plen) = if idx < two { (idx, 2) } else { (idx - two, 3) };
    let mut prefix = String::new();
    prefix.push(TYPE_FIRST[(i % 26) as usize] as char);
    i /= 26;
    for _ in 1..plen {
        prefix.push(TYPE_REST[(i % 39) as usize] as char);
        i /= 39;
    }
    Some(TypeBlock { prefix, suffix_len: 4 })
}

fn o_block(b: &TypeBlock, st: &mut Stats) -> Result<(), String> {
    let n = b.suffix_len as usize;
    if n > 5 || b.prefix.len() > 8 || !b.prefix.is_ascii() {
        return Err("bad replay case: block size".into());
    }
    let mut buf = [0u8; 16];
    let p = b.prefix.len();
    buf[..p].copy_from_slice(b.prefix.as_bytes());
    let mut digits = [0usize; 5];
    for d in 0..n {
        buf[p + d] = TYPE_REST[0];
    }
    let mut count = 0u64;
    loop {
        let s = std::str::from_utf8(&buf[..p + n]).unwrap();
        count += 1;
        if let Ok(v) = PackageType::from_str(s) {
            if !v.name().eq_ignore_ascii_case(s) {
                return Err(format!("{s:?} is taken for the package type {:?}", v.name()));
            }
            st.class("parses");
        }
        // next suffix
        let mut d = 0;
        loop {
            if d == n {
                st.class("block");
                st.add_evaluations(count);
                return Ok(());
            }
            digits[d] += 1;
            if digits[d] < TYPE_REST.len() {
                buf[p + d] = TYPE_REST[digits[d]];
                break;
            }
            digits[d] = 0;
            buf[p + d] = TYPE_REST[0];
            d += 1;
        }
    }
}

/// Sub-slices of the very `&'static str` that `name()` returns (an input that aliases the library's own
/// data), and every name followed by a run of 0..=1100 and 65 500..=65 600 characters.
fn o_views(_: &String, st: &mut Stats) -> Result<(), String> {
    for t in [PackageType::Cargo, PackageType::Gem, PackageType::Golang, PackageType::Maven, PackageType::Npm, PackageType::NuGet, PackageType::PyPI] {
        let name: &'static str = t.name();
        let views: [&'static str; 2] = [name, t.into()];
        for v in views {
            for i in 0..=v.len() {
                for j in i..=v.len() {
                    o_lean(&v[i..j].to_string(), st).map_err(|m| format!("(a copy of a sub-slice of the static name) {m}"))?;
                    // the slice itself, not a copy of it
                    match PackageType::from_str(&v[i..j]) {
                        Ok(got) if got.name().eq_ignore_ascii_case(&v[i..j]) => {},
                        Ok(got) => return Err(format!("the sub-slice {:?} of the static string returned by name() is taken for the package type {:?}", &v[i..j], got.name())),
                        Err(_) if &v[i..j] == name => return Err(format!("the static string {name:?} itself does not parse")),
                        Err(_) => {},
                    }
                }
            }
        }
        for n in (0..=1100usize).chain(65_500..=65_600) {
            for fill in ['a', 'A', '-'] {
                let s = format!("{name}{}", fill.to_string().repeat(n));
                o_lean(&s, st)?;
                let s = format!("{}{}", name.to_ascii_uppercase(), fill.to_string().repeat(n));
                o_lean(&s, st)?;
            }
        }
    }
    st.class("views-and-runs");
    Ok(())
}

pub fn sections() -> Vec<Box<dyn Section>> {
    vec![
        Box::new(Enumerated {
            name: "every-scalar-at-every-position-of-every-name".into(),
            // quick: the scalar values below U+30000 (all planes with letters); thorough: every scalar value
            total: Box::new(|t: Tier| t.pick(0x30000u64, 0x110000u64) * 3 * 7 * 7),
            make: Box::new(|t: Tier, i| scalar_edit(t.pick(0x30000u64, 0x110000u64), i)),
            oracle: o_lean,
            required: vec!["parses"],
            complete: true,
        }),
        Box::new(Enumerated {
            name: "all-short-lower-case-alphanumeric-strings".into(),
            total: Box::new(|t: Tier| (1..=t.pick(5u32, 6u32)).map(|l| 36u64.pow(l)).sum()),
            make: Box::new(|_, i| alnum_string(i)),
            oracle: o_lean,
            required: vec!["parses"],
            complete: true,
        }),
        Box::new(Enumerated {
            name: "all-type-names-of-six-and-seven-characters".into(),
            // quick: the 6-character names (26 * 39 blocks of 39^4); thorough: the 7-character names as well
            total: Box::new(|t: Tier| t.pick(26 * 39, 26 * 39 + 26 * 39 * 39)),
            make: Box::new(|_, i| type_block(i)),
            oracle: o_block,
            required: vec!["block", "parses"],
            complete: true,
        }),
        Box::new(Listed {
            name: "views-into-the-static-names-and-names-followed-by-runs".into(),
            cases: Box::new(|_| vec![String::new()]),
            oracle: o_views,
        }),
        Box::new(Listed {
            name: "seven-variants-all-case-variants".into(),
            cases: Box::new(|_| KNOWN_TYPES.iter().map(|s| s.to_string()).collect()),
            oracle: o_variant,
        }),
        Box::new(Listed { name: "one-edit-neighbours-and-other-types".into(), cases: Box::new(|_| neighbours()), oracle: o_string }),
        Box::new(Enumerated {
            name: "short-strings-over-name-letters-and-look-alikes".into(),
            total: Box::new(|t: Tier| short_total(t.pick(4, 5))),
            make: Box::new(|_, i| short_make(i)),
            oracle: o_string,
            required: vec!["parses", "refused", "near-miss"],
            complete: true,
        }),
        Box::new(Random {
            name: "random-strings".into(),
            quick: 100_000,
            thorough: 3_000_000,
            strategy: Box::new(|_| {
                prop_oneof![
                    2 => gtext(0),
                    1 => (crate::chars::gliteral(), proptest::sample::select(&["", " ", "\0", "x", "İ", "S"][..]), any::<bool>())
                        .prop_map(|(l, g, front)| if front { format!("{g}{l}") } else { format!("{l}{g}") }),
                    2 => (proptest::sample::select(KNOWN_TYPES), gtext(0), any::<bool>())
                        .prop_map(|(n, t, front)| if front { format!("{t}{n}") } else { format!("{n}{t}") }),
                    1 => proptest::collection::vec(proptest::sample::select(ALPHABET), 0..=7).prop_map(|v| v.into_iter().collect::<String>()),
                ]
                .boxed()
            }),
            oracle: o_string,
            required: vec!["refused"],
        }),
    ]
}

pub fn prop() -> Prop {
    Prop {
        id: "C15",
        sections,
        rule: "The seven variants with all 2^len letter-case variants of their names (complete): name(), Display, as_ref, \
               From, package_type() and the serde form agree, are lower-case and parse back. Every string up to length 4 \
               / 5 over the 15 letters of the names plus look-alikes (long s, Kelvin sign, dotless i, dotted I, full-width \
               letters, script g, combining dot, space, NUL) and five upper-case letters (complete); every one-edit \
               neighbour of every name over that alphabet, padded / doubled forms, the other type names of the PURL spec; \
               random strings. Oracle: a string parses to a type iff its ASCII-lower-cased form is that type's name \
               (also through Purl::from_str for syntactically valid type strings). Non-trivial = a string that is not a \
               name but lower-cases / case-folds to within one edit of a name (or a proper case variant of a name); \
               distinct by string.",
        assumptions: &["serde is exercised through serde_json"],
        extra: None,
    }
}
