//! C11 - the qualifier collection behaves as a case-insensitive sorted map.

use std::cmp::Ordering;
use std::collections::hash_map::DefaultHasher;
use std::collections::BTreeMap;
use std::hash::{Hash, Hasher};

use proptest::prelude::*;
use proptest::sample::select;
use purl::qualifiers::well_known::{Checksum, RepositoryUrl};
use purl::qualifiers::Entry;
use purl::Qualifiers;
use serde::{Deserialize, Serialize};
use serde_json::json;

use crate::api::SmallString;
use crate::buildprog::{gck_entries, gck_text, gkey_any, make_checksum, model_checksum, model_checksum_text, CkVal};
use crate::chars::{gtext, is_valid_key};
use crate::engine::{guard, Enumerated, Random, Section, Stats, Tier};
use crate::model;
use crate::props::Prop;
use crate::spell::Chooser;

#[derive(Clone, Debug, Serialize, Deserialize, PartialEq, Eq, Hash)]
pub enum Pred {
    KeepAll,
    DropAll,
    KeepValueNonEmpty,
    /// keep keys that are `<` this ASCII text under the key's case-insensitive ordering
    KeepKeyLess(String),
    /// drop the key that `==` this ASCII text (any case)
    DropKeyEq(String),
}

#[derive(Clone, Debug, Serialize, Deserialize, PartialEq, Eq, Hash)]
pub enum QOp {
    Insert(String, String),
    InsertOwnedKey(String, String),
    EntryClassify(String),
    EntryOrInsert(String, String),
    EntryOrInsertWith(String, String),
    EntryAndModify(String, String),
    EntryAndModifyOrInsert(String, String, String),
    OccGet(String),
    OccGetMut(String, String),
    OccIntoMut(String, String),
    OccInsert(String, String),
    OccRemove(String),
    OccRemoveEntry(String),
    VacInsert(String, String),
    Get(String),
    GetMut(String, String),
    ContainsKey(String),
    Index(String),
    IndexMut(String, String),
    Remove(String),
    Retain(Pred),
    RetainMut(Pred, String),
    Clear,
    Iter(Vec<bool>),
    IterMut(Vec<bool>, String),
    IntoIterRef,
    Reserve(u8),
    ReserveExact(u8),
    TryFromIter(Vec<(String, String)>),
    RepoInsert(String),
    RepoGet,
    RepoRemove,
    ChecksumTryInsert(Vec<(String, CkVal)>),
    ChecksumTryGet,
    KeyCompare(String),
    KeyViews,
    CloneEq,
    /// typed accessors with a user-declared key (`Build_Id`): insert / get / contains / remove
    UserTyped(u8, String),
    /// provided iterator methods (nth, nth_back, count, last, rev + skip, step_by, take + rev, fold) on iter() / iter_mut()
    IterMethod(u8, u8, bool),
}

/// A typed qualifier declared outside the library, with a mixed-case key.
pub struct BuildId<'a>(pub &'a str);

impl purl::qualifiers::well_known::KnownQualifierKey for BuildId<'_> {
    const KEY: &'static str = "Build_Id";
}

impl<'a> From<&'a str> for BuildId<'a> {
    fn from(s: &'a str) -> Self {
        BuildId(s)
    }
}

impl<'a> From<BuildId<'a>> for SmallString {
    fn from(b: BuildId<'a>) -> Self {
        SmallString::from(b.0)
    }
}

#[derive(Clone, Debug, Serialize, Deserialize)]
pub struct QCase {
    pub init: Vec<(String, String)>,
    pub ops: Vec<QOp>,
    pub shuffle: Vec<u8>,
}

type Model = BTreeMap<String, String>;

fn lk(k: &str) -> String {
    k.to_ascii_lowercase()
}

fn keep(pred: &Pred, key: &purl::qualifiers::QualifierKey, value: &str) -> bool {
    match pred {
        Pred::KeepAll => true,
        Pred::DropAll => false,
        Pred::KeepValueNonEmpty => !value.is_empty(),
        Pred::KeepKeyLess(x) => key.partial_cmp(x.as_str()) == Some(Ordering::Less),
        Pred::DropKeyEq(x) => !(key == x.as_str()),
    }
}

/// Key comparisons are judged against ASCII text only (DESIGN.md 6.6): a predicate with a
/// non-ASCII argument is replaced by KeepAll on both sides.
fn ascii_only(p: &Pred) -> Pred {
    match p {
        Pred::KeepKeyLess(x) | Pred::DropKeyEq(x) if !x.is_ascii() => Pred::KeepAll,
        p => p.clone(),
    }
}

fn keep_model(pred: &Pred, key: &str, value: &str) -> bool {
    match pred {
        Pred::KeepAll => true,
        Pred::DropAll => false,
        Pred::KeepValueNonEmpty => !value.is_empty(),
        Pred::KeepKeyLess(x) => key.as_bytes() < lk(x).as_bytes(),
        Pred::DropKeyEq(x) => key != lk(x),
    }
}

fn content(q: &Qualifiers) -> Vec<(String, String)> {
    q.iter().map(|(k, v)| (k.as_str().to_string(), v.to_string())).collect()
}

fn check_content(q: &Qualifiers, m: &Model, after: &str) -> Result<(), String> {
    let want: Vec<(String, String)> = m.iter().map(|(k, v)| (k.clone(), v.clone())).collect();
    let got = content(q);
    if got != want {
        return Err(format!("after {after}: content {got:?}, reference {want:?}"));
    }
    let mut rev: Vec<(String, String)> = q.iter().rev().map(|(k, v)| (k.as_str().to_string(), v.to_string())).collect();
    rev.reverse();
    if rev != want {
        return Err(format!("after {after}: reverse iteration {rev:?} does not mirror {want:?}"));
    }
    if q.len() != m.len() || q.is_empty() != m.is_empty() || q.iter().len() != m.len() {
        return Err(format!("after {after}: len {} / is_empty {} / iter().len() {}, reference len {}", q.len(), q.is_empty(), q.iter().len(), m.len()));
    }
    Ok(())
}

macro_rules! expect_eq {
    ($got:expr, $want:expr, $what:expr) => {{
        let (g, w) = (&$got, &$want);
        if g != w {
            return Err(format!("{}: got {:?}, reference {:?}", $what, g, w));
        }
    }};
}

fn step(q: &mut Qualifiers, m: &mut Model, op: &QOp) -> Result<(), String> {
    let what = format!("{op:?}");
    match op {
        QOp::Insert(k, v) | QOp::InsertOwnedKey(k, v) => {
            let r = if matches!(op, QOp::Insert(..)) {
                q.insert(k.as_str(), v.as_str()).map(|r| r.to_string()).map_err(|e| crate::api::parse_err_kind(&e))
            } else {
                q.insert(k.clone(), v.clone()).map(|r| r.to_string()).map_err(|e| crate::api::parse_err_kind(&e))
            };
            if is_valid_key(k) {
                m.insert(lk(k), v.clone());
                expect_eq!(r, Ok::<String, String>(v.clone()), what);
            } else {
                expect_eq!(r, Err::<String, String>("InvalidQualifier".into()), what);
            }
        },
        QOp::EntryClassify(k) => {
            let r = match q.entry(k.as_str()) {
                Ok(Entry::Occupied(o)) => Ok(Some(o.get().to_string())),
                Ok(Entry::Vacant(_)) => Ok(None),
                Err(e) => Err(crate::api::parse_err_kind(&e)),
            };
            let want = if is_valid_key(k) { Ok(m.get(&lk(k)).cloned()) } else { Err("InvalidQualifier".to_string()) };
            expect_eq!(r, want, what);
        },
        QOp::EntryOrInsert(k, v) | QOp::EntryOrInsertWith(k, v) => {
            let mut called = false;
            let r = match q.entry(k.as_str()) {
                Ok(e) => Ok(if matches!(op, QOp::EntryOrInsert(..)) {
                    e.or_insert(v.as_str()).to_string()
                } else {
                    e.or_insert_with(|| {
                        called = true;
                        v.as_str()
                    })
                    .to_string()
                }),
                Err(e) => Err(crate::api::parse_err_kind(&e)),
            };
            if is_valid_key(k) {
                let existed = m.contains_key(&lk(k));
                let cur = m.entry(lk(k)).or_insert_with(|| v.clone()).clone();
                expect_eq!(r, Ok::<String, String>(cur), what);
                if matches!(op, QOp::EntryOrInsertWith(..)) && called == existed {
                    return Err(format!("{what}: default closure called = {called} although the key existed = {existed}"));
                }
            } else {
                expect_eq!(r, Err::<String, String>("InvalidQualifier".into()), what);
            }
        },
        QOp::EntryAndModify(k, suffix) => {
            let mut called = false;
            let r = q
                .entry(k.as_str())
                .map(|e| {
                    let _ = e.and_modify(|v| {
                        called = true;
                        v.push_str(suffix);
                    });
                })
                .map_err(|e| crate::api::parse_err_kind(&e));
            if is_valid_key(k) {
                expect_eq!(r, Ok::<(), String>(()), what);
                let existed = m.contains_key(&lk(k));
                if let Some(v) = m.get_mut(&lk(k)) {
                    v.push_str(suffix);
                }
                if called != existed {
                    return Err(format!("{what}: and_modify closure called = {called}, key existed = {existed}"));
                }
            } else {
                expect_eq!(r, Err::<(), String>("InvalidQualifier".into()), what);
            }
        },
        QOp::EntryAndModifyOrInsert(k, suffix, v) => {
            let r = q
                .entry(k.as_str())
                .map(|e| e.and_modify(|x| x.push_str(suffix)).or_insert(v.as_str()).to_string())
                .map_err(|e| crate::api::parse_err_kind(&e));
            if is_valid_key(k) {
                let cur = match m.get_mut(&lk(k)) {
                    Some(x) => {
                        x.push_str(suffix);
                        x.clone()
                    },
                    None => {
                        m.insert(lk(k), v.clone());
                        v.clone()
                    },
                };
                expect_eq!(r, Ok::<String, String>(cur), what);
            } else {
                expect_eq!(r, Err::<String, String>("InvalidQualifier".into()), what);
            }
        },
        QOp::OccGet(k)
        | QOp::OccGetMut(k, _)
        | QOp::OccIntoMut(k, _)
        | QOp::OccInsert(k, _)
        | QOp::OccRemove(k)
        | QOp::OccRemoveEntry(k)
        | QOp::VacInsert(k, _) => {
            let valid = is_valid_key(k);
            let present = m.contains_key(&lk(k));
            match q.entry(k.as_str()) {
                Err(e) => {
                    if valid {
                        return Err(format!("{what}: entry() refused a valid key with {}", crate::api::parse_err_kind(&e)));
                    }
                },
                Ok(_) if !valid => return Err(format!("{what}: entry() accepted an invalid key")),
                Ok(Entry::Occupied(mut o)) => {
                    if !present {
                        return Err(format!("{what}: entry is Occupied but the reference has no such key"));
                    }
                    let cur = m.get(&lk(k)).cloned().unwrap();
                    match op {
                        QOp::OccGet(_) | QOp::VacInsert(..) => expect_eq!(o.get().to_string(), cur, what),
                        QOp::OccGetMut(_, v) => {
                            expect_eq!(o.get_mut().to_string(), cur, what);
                            *o.get_mut() = SmallString::from(v.as_str());
                            expect_eq!(o.get().to_string(), *v, what);
                            m.insert(lk(k), v.clone());
                        },
                        QOp::OccIntoMut(_, v) => {
                            let r = o.into_mut();
                            expect_eq!(r.to_string(), cur, what);
                            *r = SmallString::from(v.as_str());
                            m.insert(lk(k), v.clone());
                        },
                        QOp::OccInsert(_, v) => {
                            let prev = o.insert(v.as_str());
                            expect_eq!(prev.to_string(), cur, format!("{what} (previous value)"));
                            expect_eq!(o.get().to_string(), *v, what);
                            m.insert(lk(k), v.clone());
                        },
                        QOp::OccRemove(_) => {
                            expect_eq!(o.remove().to_string(), cur, what);
                            m.remove(&lk(k));
                        },
                        QOp::OccRemoveEntry(_) => {
                            let (rk, rv) = o.remove_entry();
                            expect_eq!((rk.to_string(), rv.to_string()), (lk(k), cur), what);
                            m.remove(&lk(k));
                        },
                        _ => unreachable!(),
                    }
                },
                Ok(Entry::Vacant(v)) => {
                    if present {
                        return Err(format!("{what}: entry is Vacant but the reference has the key"));
                    }
                    if let QOp::VacInsert(_, val) = op {
                        let r = v.insert(val.clone());
                        expect_eq!(r.to_string(), *val, what);
                        m.insert(lk(k), val.clone());
                    }
                },
            }
        },
        QOp::Get(k) => {
            let want = if is_valid_key(k) { m.get(&lk(k)).cloned() } else { None };
            expect_eq!(q.get(k.as_str()).map(str::to_string), want, what);
            expect_eq!(q.get(k.clone()).map(str::to_string), want, what);
        },
        QOp::GetMut(k, v) => {
            let want = if is_valid_key(k) { m.get(&lk(k)).cloned() } else { None };
            let r = q.get_mut(k.as_str());
            expect_eq!(r.as_ref().map(|x| x.to_string()), want, what);
            if let Some(r) = r {
                *r = SmallString::from(v.as_str());
                m.insert(lk(k), v.clone());
            }
        },
        QOp::ContainsKey(k) => {
            let want = is_valid_key(k) && m.contains_key(&lk(k));
            expect_eq!(q.contains_key(k.as_str()), want, what);
        },
        QOp::Index(k) => {
            // absent / invalid keys are the documented panic (C06): only index what is there
            if is_valid_key(k) {
                if let Some(want) = m.get(&lk(k)) {
                    expect_eq!(q[k.as_str()].to_string(), *want, what);
                }
            }
        },
        QOp::IndexMut(k, v) => {
            if is_valid_key(k) && m.contains_key(&lk(k)) {
                q[k.as_str()] = SmallString::from(v.as_str());
                m.insert(lk(k), v.clone());
            }
        },
        QOp::Remove(k) => {
            let want = if is_valid_key(k) { m.remove(&lk(k)) } else { None };
            expect_eq!(q.remove(k.as_str()).map(|v| v.to_string()), want, what);
        },
        QOp::Retain(p) => {
            let p = &ascii_only(p);
            q.retain(|k, v| keep(p, k, v));
            m.retain(|k, v| keep_model(p, k, v));
        },
        QOp::RetainMut(p, suffix) => {
            let p = &ascii_only(p);
            q.retain_mut(|k, v| {
                let r = keep(p, k, v);
                v.push_str(suffix);
                r
            });
            m.retain(|k, v| {
                let r = keep_model(p, k, v);
                v.push_str(suffix);
                r
            });
        },
        QOp::Clear => {
            q.clear();
            m.clear();
        },
        QOp::Iter(pattern) => {
            let mut it = q.iter();
            let mut want: std::collections::VecDeque<(String, String)> = m.iter().map(|(k, v)| (k.clone(), v.clone())).collect();
            let mut i = 0;
            loop {
                expect_eq!(it.len(), want.len(), format!("{what}: len() after {i} steps"));
                expect_eq!(it.size_hint(), (want.len(), Some(want.len())), format!("{what}: size_hint after {i} steps"));
                let back = pattern.get(i).copied().unwrap_or(false);
                let (got, w) = if back { (it.next_back(), want.pop_back()) } else { (it.next(), want.pop_front()) };
                let got = got.map(|(k, v)| (k.as_str().to_string(), v.to_string()));
                expect_eq!(got, w, format!("{what}: step {i} from the {}", if back { "back" } else { "front" }));
                if w.is_none() {
                    break;
                }
                i += 1;
            }
        },
        QOp::IterMut(pattern, suffix) => {
            let mut want: std::collections::VecDeque<(String, String)> = m.iter().map(|(k, v)| (k.clone(), v.clone())).collect();
            {
                let mut it = q.iter_mut();
                let mut i = 0;
                loop {
                    expect_eq!(it.len(), want.len(), format!("{what}: len() after {i} steps"));
                    let back = pattern.get(i).copied().unwrap_or(false);
                    let (got, w) = if back { (it.next_back(), want.pop_back()) } else { (it.next(), want.pop_front()) };
                    match (got, w) {
                        (None, None) => break,
                        (Some((k, v)), Some((wk, wv))) => {
                            expect_eq!((k.as_str().to_string(), v.to_string()), (wk.clone(), wv), format!("{what}: step {i}"));
                            v.push_str(suffix);
                            m.get_mut(&wk).unwrap().push_str(suffix);
                        },
                        (g, w) => return Err(format!("{what}: step {i}: got {:?}, reference {w:?}", g.map(|(k, v)| (k.as_str().to_string(), v.to_string())))),
                    }
                    i += 1;
                }
            }
        },
        QOp::IntoIterRef => {
            let got: Vec<(String, String)> = (&*q).into_iter().map(|(k, v)| (k.as_str().to_string(), v.to_string())).collect();
            let want: Vec<(String, String)> = m.iter().map(|(k, v)| (k.clone(), v.clone())).collect();
            expect_eq!(got, want, what);
            for (_k, v) in &mut *q {
                v.push('~');
            }
            for v in m.values_mut() {
                v.push('~');
            }
        },
        QOp::Reserve(n) => {
            q.reserve(*n as usize);
            if q.capacity() < q.len() + *n as usize {
                return Err(format!("{what}: capacity {} < len {} + {n}", q.capacity(), q.len()));
            }
        },
        QOp::ReserveExact(n) => {
            q.reserve_exact(*n as usize);
            if q.capacity() < q.len() + *n as usize {
                return Err(format!("{what}: capacity {} < len {} + {n}", q.capacity(), q.len()));
            }
        },
        QOp::TryFromIter(pairs) => {
            // the same pairs through an iterator whose size hint has no useful upper bound
            let loose = guard(|| Qualifiers::try_from_iter((0..usize::MAX).map_while(|i| pairs.get(i).map(|(k, v)| (k.as_str(), v.as_str())))))
                .map_err(|m| format!("{what}: try_from_iter over an iterator with size_hint (0, Some(usize::MAX)) panicked: {m}"))?;
            let r = Qualifiers::try_from_iter(pairs.iter().map(|(k, v)| (k.as_str(), v.as_str())));
            if loose.is_ok() != r.is_ok() || loose.as_ref().ok().map(content) != r.as_ref().ok().map(content) {
                return Err(format!("{what}: the result depends on the iterator's size hint"));
            }
            let mut nm = Model::new();
            let mut ok = true;
            for (k, v) in pairs {
                if !is_valid_key(k) || nm.contains_key(&lk(k)) {
                    ok = false;
                    break;
                }
                nm.insert(lk(k), v.clone());
            }
            match (r, ok) {
                (Ok(nq), true) => {
                    *q = nq;
                    *m = nm;
                },
                (Err(e), false) => expect_eq!(crate::api::parse_err_kind(&e), "InvalidQualifier".to_string(), what),
                (Ok(nq), false) => return Err(format!("{what}: accepted ({:?}) although a key is invalid or repeated", content(&nq))),
                (Err(e), true) => return Err(format!("{what}: refused with {} although all keys are valid and distinct", crate::api::parse_err_kind(&e))),
            }
        },
        QOp::RepoInsert(v) => {
            q.insert_typed(RepositoryUrl::from(v.as_str()));
            m.insert("repository_url".into(), v.clone());
        },
        QOp::RepoGet => {
            let got = q.get_typed::<RepositoryUrl>().map(|r| r.as_ref().to_string());
            expect_eq!(got, m.get("repository_url").cloned(), what);
            expect_eq!(q.contains_typed::<RepositoryUrl>(), m.contains_key("repository_url"), what);
        },
        QOp::RepoRemove => {
            q.remove_typed::<RepositoryUrl>();
            m.remove("repository_url");
        },
        QOp::IterMethod(kind, k, mutable) => {
            let want_all: Vec<(String, String)> = m.iter().map(|(a, b)| (a.clone(), b.clone())).collect();
            let k = *k as usize % 5;
            let pick = |v: Vec<(String, String)>| v;
            let want: Vec<(String, String)> = match kind % 8 {
                0 => want_all.iter().cloned().nth(k).into_iter().collect(),
                1 => want_all.iter().cloned().rev().nth(k).into_iter().collect(),
                2 => vec![(want_all.len().to_string(), String::new())],
                3 => want_all.last().cloned().into_iter().collect(),
                4 => want_all.iter().cloned().rev().skip(k).collect(),
                5 => want_all.iter().cloned().step_by(k + 1).collect(),
                6 => want_all.iter().cloned().take(k + 1).rev().collect(),
                _ => {
                    // nth from the front, then the rest from the back
                    let mut it = want_all.iter().cloned();
                    let mut out: Vec<(String, String)> = it.nth(k).into_iter().collect();
                    out.extend(it.rev());
                    out
                },
            };
            let conv = |k: &purl::qualifiers::QualifierKey, v: &str| (k.as_str().to_string(), v.to_string());
            let got: Vec<(String, String)> = if *mutable {
                let it = q.iter_mut();
                match kind % 8 {
                    0 => { let mut it = it; it.nth(k).map(|(a, b)| conv(a, b)).into_iter().collect() },
                    1 => { let mut it = it; it.nth_back(k).map(|(a, b)| conv(a, b)).into_iter().collect() },
                    2 => vec![(it.count().to_string(), String::new())],
                    3 => it.last().map(|(a, b)| conv(a, b)).into_iter().collect(),
                    4 => it.rev().skip(k).map(|(a, b)| conv(a, b)).collect(),
                    5 => it.step_by(k + 1).map(|(a, b)| conv(a, b)).collect(),
                    6 => it.take(k + 1).rev().map(|(a, b)| conv(a, b)).collect(),
                    _ => {
                        let mut it = it;
                        let mut out: Vec<(String, String)> = it.nth(k).map(|(a, b)| conv(a, b)).into_iter().collect();
                        out.extend(it.rev().map(|(a, b)| conv(a, b)));
                        out
                    },
                }
            } else {
                let it = q.iter();
                match kind % 8 {
                    0 => { let mut it = it; it.nth(k).map(|(a, b)| conv(a, b)).into_iter().collect() },
                    1 => { let mut it = it; it.nth_back(k).map(|(a, b)| conv(a, b)).into_iter().collect() },
                    2 => vec![(it.count().to_string(), String::new())],
                    3 => it.last().map(|(a, b)| conv(a, b)).into_iter().collect(),
                    4 => it.rev().skip(k).map(|(a, b)| conv(a, b)).collect(),
                    5 => it.step_by(k + 1).map(|(a, b)| conv(a, b)).collect(),
                    6 => it.take(k + 1).rev().map(|(a, b)| conv(a, b)).collect(),
                    _ => {
                        let mut it = it;
                        let mut out: Vec<(String, String)> = it.nth(k).map(|(a, b)| conv(a, b)).into_iter().collect();
                        out.extend(it.rev().map(|(a, b)| conv(a, b)));
                        out
                    },
                }
            };
            expect_eq!(pick(got), want, what);
        },
        QOp::UserTyped(which, v) => {
            // a typed key declared by the user, in mixed case: typed accessors must agree with the plain ones
            match which % 4 {
                0 => {
                    q.insert_typed(BuildId(v.as_str()));
                    m.insert("build_id".into(), v.clone());
                },
                1 => {
                    let got = q.get_typed::<BuildId>().map(|b| b.0.to_string());
                    expect_eq!(got, m.get("build_id").cloned(), what);
                    expect_eq!(q.try_get_typed::<BuildId>().ok().flatten().map(|b| b.0.to_string()), m.get("build_id").cloned(), what);
                },
                2 => expect_eq!(q.contains_typed::<BuildId>(), m.contains_key("build_id"), what),
                _ => {
                    q.remove_typed::<BuildId>();
                    m.remove("build_id");
                },
            }
        },
        QOp::ChecksumTryInsert(entries) => {
            let r = q.try_insert_typed(make_checksum(entries)).map_err(|e| crate::api::parse_err_kind(&e));
            match model_checksum_text(&model_checksum(entries)) {
                Some(t) => {
                    expect_eq!(r, Ok::<(), String>(()), what);
                    m.insert("checksum".into(), t);
                },
                None => expect_eq!(r, Err::<(), String>("InvalidQualifier".into()), what),
            }
        },
        QOp::ChecksumTryGet => {
            let r = q.try_get_typed::<Checksum>();
            match m.get("checksum") {
                None => {
                    if !matches!(r, Ok(None)) {
                        return Err(format!("{what}: expected Ok(None) without a checksum qualifier"));
                    }
                },
                Some(text) => {
                    // text -> typed: split ',', rsplit ':', duplicate algorithms refused; hex is not validated here
                    let mut want: BTreeMap<String, String> = BTreeMap::new();
                    let mut ok = true;
                    for item in text.split(',') {
                        match item.rfind(':') {
                            None => {
                                ok = false;
                                break;
                            },
                            Some(i) => {
                                if want.insert(model::lower(&item[..i]), item[i + 1..].to_string()).is_some() {
                                    ok = false;
                                    break;
                                }
                            },
                        }
                    }
                    match (r, ok) {
                        (Ok(Some(c)), true) => {
                            let mut got: BTreeMap<String, String> = BTreeMap::new();
                            for (a, v) in c.iter() {
                                got.insert(a.to_string(), v.raw().to_string());
                            }
                            expect_eq!(got, want, what);
                        },
                        (Err(e), false) => expect_eq!(crate::api::parse_err_kind(&e), "InvalidQualifier".to_string(), what),
                        (Ok(x), _) => return Err(format!("{what}: got Ok({}) for checksum text {text:?}", if x.is_some() { "Some" } else { "None" })),
                        (Err(e), true) => return Err(format!("{what}: refused well-formed checksum text {text:?} with {}", crate::api::parse_err_kind(&e))),
                    }
                },
            }
        },
        QOp::KeyCompare(other) => {
            if !other.is_ascii() {
                return Ok(()); // judged for ASCII right-hand sides only (DESIGN.md 6.6)
            }
            let lo = lk(other);
            for (k, _) in q.iter() {
                let eq = k == other.as_str();
                let cmp = k.partial_cmp(other.as_str());
                let want = k.as_str().as_bytes().cmp(lo.as_bytes());
                if eq != (want == Ordering::Equal) || cmp != Some(want) {
                    return Err(format!("{what}: key {:?} vs {other:?}: == is {eq}, partial_cmp is {cmp:?}, reference {want:?}", k.as_str()));
                }
                // also against an owned String and a &String
                if (k == other) != eq || k.partial_cmp(other) != cmp {
                    return Err(format!("{what}: comparison with String differs from comparison with &str"));
                }
            }
        },
        QOp::KeyViews => {
            for (k, _) in q.iter() {
                let s = k.as_str();
                let d: &str = k;
                let a: &str = k.as_ref();
                let owned: SmallString = SmallString::from(k);
                let owned2: SmallString = SmallString::from(k.clone());
                if d != s || a != s || owned.as_str() != s || owned2.as_str() != s || s != lk(s) {
                    return Err(format!("{what}: views of key {s:?} disagree or the key is not lower-case"));
                }
            }
        },
        QOp::CloneEq => {
            let c = q.clone();
            if c != *q || c.cmp(q) != Ordering::Equal || c.partial_cmp(q) != Some(Ordering::Equal) {
                return Err(format!("{what}: a clone is not equal to the original"));
            }
        },
    }
    check_content(q, m, &what)
}

fn hash_of<T: Hash>(t: &T) -> u64 {
    let mut h = DefaultHasher::new();
    t.hash(&mut h);
    h.finish()
}

fn final_checks(q: &Qualifiers, m: &Model, shuffle: &[u8]) -> Result<(), String> {
    // re-insert the content into a fresh collection in a shuffled order with random key case
    let mut ch = Chooser::new(shuffle);
    let mut pairs: Vec<(String, String)> = m.iter().map(|(k, v)| (k.clone(), v.clone())).collect();
    for i in (1..pairs.len()).rev() {
        let j = ch.next(i + 1);
        pairs.swap(i, j);
    }
    let mut fresh = Qualifiers::with_capacity(ch.next(4));
    for (k, v) in &pairs {
        let kk: String = k.chars().map(|c| if ch.flag() { c.to_ascii_uppercase() } else { c }).collect();
        fresh.insert(kk, v.as_str()).map_err(|e| format!("re-insertion of {k:?} failed: {e}"))?;
    }
    if fresh != *q || *q != fresh {
        return Err(format!("same content, different insertion order / key case: not equal ({:?} vs {:?})", content(q), content(&fresh)));
    }
    if fresh.cmp(q) != Ordering::Equal || q.cmp(&fresh) != Ordering::Equal || fresh.partial_cmp(q) != Some(Ordering::Equal) {
        return Err("same content, different insertion order / key case: cmp is not Equal".into());
    }
    if hash_of(&fresh) != hash_of(q) {
        return Err("same content, different insertion order / key case: hashes differ".into());
    }
    // against a collection with different content
    let mut other = q.clone();
    match ch.next(3) {
        0 => {
            let _ = other.insert("zz-extra", "1");
        },
        1 if !m.is_empty() => {
            let k = m.keys().nth(ch.next(m.len())).unwrap().clone();
            other.remove(k);
        },
        _ => {
            if let Some(k) = m.keys().next().cloned() {
                other[k.as_str()].push('!');
            } else {
                let _ = other.insert("a", "");
            }
        },
    }
    if other == *q {
        return Err(format!("different content compares equal: {:?} vs {:?}", content(q), content(&other)));
    }
    let (a, b) = (q.cmp(&other), other.cmp(q));
    if a == Ordering::Equal || a != b.reverse() {
        return Err(format!("different content: cmp gives {a:?} one way and {b:?} the other"));
    }
    Ok(())
}

fn o_case(c: &QCase, st: &mut Stats) -> Result<(), String> {
    let r = guard(|| -> Result<(), String> {
        let mut q = Qualifiers::default();
        let mut m = Model::new();
        for (k, v) in &c.init {
            step(&mut q, &mut m, &QOp::Insert(k.clone(), v.clone()))?;
        }
        for op in &c.ops {
            step(&mut q, &mut m, op)?;
        }
        final_checks(&q, &m, &c.shuffle)
    });
    match r {
        Err(m) => return Err(format!("a qualifier operation panicked: {m}")),
        Ok(r) => r?,
    }
    // non-trivial: a mixed-case key hitting an existing entry and a removal or entry-API call
    let mut present: Vec<String> = c.init.iter().filter(|(k, _)| is_valid_key(k)).map(|(k, _)| lk(k)).collect();
    let mut mixed_hit = false;
    let mut removal_or_entry = false;
    for op in &c.ops {
        let key = match op {
            QOp::Insert(k, _) | QOp::InsertOwnedKey(k, _) | QOp::EntryOrInsert(k, _) | QOp::EntryOrInsertWith(k, _) | QOp::VacInsert(k, _) => {
                if is_valid_key(k) && !present.contains(&lk(k)) {
                    present.push(lk(k));
                    None
                } else {
                    Some(k)
                }
            },
            QOp::EntryClassify(k)
            | QOp::EntryAndModify(k, _)
            | QOp::EntryAndModifyOrInsert(k, _, _)
            | QOp::OccGet(k)
            | QOp::OccGetMut(k, _)
            | QOp::OccIntoMut(k, _)
            | QOp::OccInsert(k, _)
            | QOp::OccRemove(k)
            | QOp::OccRemoveEntry(k)
            | QOp::Get(k)
            | QOp::GetMut(k, _)
            | QOp::ContainsKey(k)
            | QOp::Index(k)
            | QOp::IndexMut(k, _)
            | QOp::Remove(k) => Some(k),
            _ => None,
        };
        if let Some(k) = key {
            if is_valid_key(k) && *k != lk(k) && present.contains(&lk(k)) {
                mixed_hit = true;
            }
        }
        if matches!(
            op,
            QOp::Remove(_)
                | QOp::OccRemove(_)
                | QOp::OccRemoveEntry(_)
                | QOp::Retain(_)
                | QOp::RetainMut(..)
                | QOp::EntryClassify(_)
                | QOp::EntryOrInsert(..)
                | QOp::EntryOrInsertWith(..)
                | QOp::EntryAndModify(..)
                | QOp::EntryAndModifyOrInsert(..)
                | QOp::OccGet(_)
                | QOp::OccGetMut(..)
                | QOp::OccIntoMut(..)
                | QOp::OccInsert(..)
                | QOp::VacInsert(..)
        ) {
            removal_or_entry = true;
        }
    }
    st.class_if(mixed_hit, "mixed-case-key-hits-existing-entry");
    st.class_if(removal_or_entry, "removal-or-entry-api");
    if mixed_hit && removal_or_entry {
        st.nontrivial(&(&c.init, &c.ops), || json!(c));
    }
    Ok(())
}

// ---------------------------------------------------------------------------------------------
// exhaustive part: every content over {a,b,c} x {"", x, y} and every single operation

pub const UKEYS: &[&str] = &["a", "A", "b", "B", "c", "C", "ab", "", "!", "a b", "é", "\u{212A}"];
pub const UVALS: &[&str] = &["", "x", "y"];

fn universe_ops() -> Vec<QOp> {
    let mut v = Vec::new();
    for k in UKEYS {
        let k = k.to_string();
        for val in UVALS {
            let val = val.to_string();
            v.push(QOp::Insert(k.clone(), val.clone()));
            v.push(QOp::InsertOwnedKey(k.clone(), val.clone()));
            v.push(QOp::EntryOrInsert(k.clone(), val.clone()));
            v.push(QOp::EntryOrInsertWith(k.clone(), val.clone()));
            v.push(QOp::EntryAndModify(k.clone(), val.clone()));
            v.push(QOp::EntryAndModifyOrInsert(k.clone(), "+".into(), val.clone()));
            v.push(QOp::OccGetMut(k.clone(), val.clone()));
            v.push(QOp::OccIntoMut(k.clone(), val.clone()));
            v.push(QOp::OccInsert(k.clone(), val.clone()));
            v.push(QOp::VacInsert(k.clone(), val.clone()));
            v.push(QOp::GetMut(k.clone(), val.clone()));
            v.push(QOp::IndexMut(k.clone(), val.clone()));
        }
        v.push(QOp::EntryClassify(k.clone()));
        v.push(QOp::OccGet(k.clone()));
        v.push(QOp::OccRemove(k.clone()));
        v.push(QOp::OccRemoveEntry(k.clone()));
        v.push(QOp::Get(k.clone()));
        v.push(QOp::ContainsKey(k.clone()));
        v.push(QOp::Index(k.clone()));
        v.push(QOp::Remove(k.clone()));
        v.push(QOp::KeyCompare(k.clone()));
        v.push(QOp::Retain(Pred::KeepKeyLess(k.clone())));
        v.push(QOp::Retain(Pred::DropKeyEq(k.clone())));
        v.push(QOp::RetainMut(Pred::DropKeyEq(k.clone()), "z".into()));
    }
    for p in [Pred::KeepAll, Pred::DropAll, Pred::KeepValueNonEmpty] {
        v.push(QOp::Retain(p.clone()));
        v.push(QOp::RetainMut(p, "z".into()));
    }
    v.push(QOp::Clear);
    for pat in [vec![], vec![true, true, true], vec![false, true, false], vec![true, false, true]] {
        v.push(QOp::Iter(pat.clone()));
        v.push(QOp::IterMut(pat, "m".into()));
    }
    v.push(QOp::IntoIterRef);
    v.push(QOp::Reserve(3));
    v.push(QOp::ReserveExact(3));
    v.push(QOp::TryFromIter(vec![("b".into(), "x".into()), ("a".into(), "y".into())]));
    v.push(QOp::TryFromIter(vec![("a".into(), "x".into()), ("A".into(), "y".into())]));
    v.push(QOp::TryFromIter(vec![("a".into(), "x".into()), ("!".into(), "y".into())]));
    v.push(QOp::RepoInsert("u".into()));
    v.push(QOp::RepoGet);
    v.push(QOp::RepoRemove);
    v.push(QOp::ChecksumTryGet);
    v.push(QOp::ChecksumTryInsert(vec![("B".into(), CkVal::Bytes(vec![1])), ("a".into(), CkVal::Raw("FF".into()))]));
    v.push(QOp::ChecksumTryInsert(vec![("a".into(), CkVal::Raw("0".into()))]));
    v.push(QOp::KeyViews);
    v.push(QOp::CloneEq);
    for w in 0..4u8 {
        v.push(QOp::UserTyped(w, "x".into()));
    }
    for kind in 0..8u8 {
        for k in 0..3u8 {
            v.push(QOp::IterMethod(kind, k, false));
            v.push(QOp::IterMethod(kind, k, true));
        }
    }
    v
}

fn enum_case(idx: u64) -> Option<QCase> {
    let ops = universe_ops();
    let n = ops.len() as u64;
    let content = idx / n;
    let op = ops[(idx % n) as usize].clone();
    let mut init = Vec::new();
    let mut c = content;
    // insertion order varies with the content index so that order independence is exercised too
    let keys: [&str; 3] = if content % 2 == 0 { ["a", "b", "c"] } else { ["C", "b", "A"] };
    for k in keys {
        let d = c % 4;
        c /= 4;
        if d > 0 {
            init.push((k.to_string(), UVALS[(d - 1) as usize].to_string()));
        }
    }
    Some(QCase { init, ops: vec![op], shuffle: vec![(idx % 251) as u8, (idx % 7) as u8 * 36, 200, 100] })
}

fn enum_total() -> u64 {
    64 * universe_ops().len() as u64
}

/// Pairs of operations from a few contents: complete in the thorough tier, a fixed stride of it in
/// the quick tier.
fn pair_space() -> u64 {
    let n = universe_ops().len() as u64;
    PAIR_CONTENTS.len() as u64 * n * n
}

const PAIR_CONTENTS: &[&[(&str, &str)]] = &[&[], &[("a", "x")], &[("b", "")], &[("a", "x"), ("c", "y")], &[("C", "y"), ("b", "x"), ("A", "")]];

fn pair_case(tier: Tier, i: u64) -> Option<QCase> {
    static OPS: std::sync::OnceLock<Vec<QOp>> = std::sync::OnceLock::new();
    let ops = OPS.get_or_init(universe_ops);
    let n = ops.len() as u64;
    let space = PAIR_CONTENTS.len() as u64 * n * n;
    let idx = match tier {
        Tier::Thorough => i,
        // 1/64 of the space, spread by a stride that is coprime to it
        Tier::Quick => (i.wrapping_mul(1_000_003)) % space,
    };
    let content = PAIR_CONTENTS[(idx / (n * n)) as usize];
    let a = ops[((idx / n) % n) as usize].clone();
    let b = ops[(idx % n) as usize].clone();
    Some(QCase {
        init: content.iter().map(|(k, v)| (k.to_string(), v.to_string())).collect(),
        ops: vec![a, b],
        shuffle: vec![(idx % 253) as u8, (idx % 11) as u8 * 23, 77],
    })
}

// ---------------------------------------------------------------------------------------------
// random part

fn gk() -> BoxedStrategy<String> {
    prop_oneof![
        5 => select(UKEYS).prop_map(str::to_string),
        3 => gkey_any(),
    ]
    .boxed()
}

fn gv() -> BoxedStrategy<String> {
    prop_oneof![
        3 => select(UVALS).prop_map(str::to_string),
        2 => gtext(0),
    ]
    .boxed()
}

fn gpred() -> BoxedStrategy<Pred> {
    prop_oneof![
        Just(Pred::KeepAll),
        Just(Pred::DropAll),
        Just(Pred::KeepValueNonEmpty),
        gk().prop_map(Pred::KeepKeyLess),
        gk().prop_map(Pred::DropKeyEq),
    ]
    .boxed()
}

fn gqop() -> BoxedStrategy<QOp> {
    let pat = || proptest::collection::vec(any::<bool>(), 0..=6);
    prop_oneof![
        6 => (gk(), gv()).prop_map(|(k, v)| QOp::Insert(k, v)),
        2 => (gk(), gv()).prop_map(|(k, v)| QOp::InsertOwnedKey(k, v)),
        2 => gk().prop_map(QOp::EntryClassify),
        2 => (gk(), gv()).prop_map(|(k, v)| QOp::EntryOrInsert(k, v)),
        2 => (gk(), gv()).prop_map(|(k, v)| QOp::EntryOrInsertWith(k, v)),
        2 => (gk(), gv()).prop_map(|(k, v)| QOp::EntryAndModify(k, v)),
        2 => (gk(), gv(), gv()).prop_map(|(k, s, v)| QOp::EntryAndModifyOrInsert(k, s, v)),
        1 => gk().prop_map(QOp::OccGet),
        1 => (gk(), gv()).prop_map(|(k, v)| QOp::OccGetMut(k, v)),
        1 => (gk(), gv()).prop_map(|(k, v)| QOp::OccIntoMut(k, v)),
        2 => (gk(), gv()).prop_map(|(k, v)| QOp::OccInsert(k, v)),
        2 => gk().prop_map(QOp::OccRemove),
        2 => gk().prop_map(QOp::OccRemoveEntry),
        2 => (gk(), gv()).prop_map(|(k, v)| QOp::VacInsert(k, v)),
        2 => gk().prop_map(QOp::Get),
        1 => (gk(), gv()).prop_map(|(k, v)| QOp::GetMut(k, v)),
        1 => gk().prop_map(QOp::ContainsKey),
        1 => gk().prop_map(QOp::Index),
        1 => (gk(), gv()).prop_map(|(k, v)| QOp::IndexMut(k, v)),
        4 => gk().prop_map(QOp::Remove),
        2 => gpred().prop_map(QOp::Retain),
        1 => (gpred(), gv()).prop_map(|(p, s)| QOp::RetainMut(p, s)),
        1 => Just(QOp::Clear),
        2 => pat().prop_map(QOp::Iter),
        1 => (pat(), gv()).prop_map(|(p, s)| QOp::IterMut(p, s)),
        1 => Just(QOp::IntoIterRef),
        1 => (0u8..=64).prop_map(QOp::Reserve),
        1 => (0u8..=64).prop_map(QOp::ReserveExact),
        1 => proptest::collection::vec((gk(), gv()), 0..=4).prop_map(QOp::TryFromIter),
        1 => gv().prop_map(QOp::RepoInsert),
        1 => Just(QOp::RepoGet),
        1 => Just(QOp::RepoRemove),
        1 => gck_entries().prop_map(QOp::ChecksumTryInsert),
        1 => gck_text().prop_map(|t| QOp::Insert("Checksum".into(), t)),
        2 => Just(QOp::ChecksumTryGet),
        2 => prop_oneof![gk(), gtext(0)].prop_map(QOp::KeyCompare),
        1 => Just(QOp::KeyViews),
        1 => Just(QOp::CloneEq),
        2 => (any::<u8>(), gv()).prop_map(|(w, v)| QOp::UserTyped(w, v)),
        3 => (any::<u8>(), any::<u8>(), any::<bool>()).prop_map(|(a, b, c)| QOp::IterMethod(a, b, c)),
    ]
    .boxed()
}

fn gcase() -> BoxedStrategy<QCase> {
    (
        prop_oneof![
            9 => proptest::collection::vec((gk(), gv()), 0..=4),
            // a collection that already holds more than 16 / 32 entries
            1 => (prop_oneof![2 => (17usize..=40).boxed(), 1 => crate::spell::gcount(70)], gv())
                .prop_map(|(n, v)| (0..n).map(|i| (format!("q{i:02}"), v.clone())).collect::<Vec<_>>()),
        ],
        proptest::collection::vec(gqop(), 0..=30),
        proptest::collection::vec(any::<u8>(), 0..=24),
    )
        .prop_map(|(init, ops, shuffle)| QCase { init, ops, shuffle })
        .boxed()
}

/// A collection with *very many* keys (see C02's `ManyKeys`: n keys are n^2/2 pairs, so whatever the
/// collection keeps per key - a digest, a bucket, a narrow index - meets its collisions). Built by
/// insert in a generated order and by try_from_iter, compared with the reference map, probed in
/// another letter case, thinned out by remove / entry / retain, compared again.
fn o_many(c: &crate::props::c02::ManyKeys, st: &mut Stats) -> Result<(), String> {
    if c.n > 200_000 || c.order > 2 {
        return Err("bad replay case: many-keys parameters".into());
    }
    let r = guard(|| -> Result<(), String> {
        let sorted = crate::props::c02::many_keys(c.seed, c.n);
        let n = sorted.len();
        let order: Vec<usize> = match c.order {
            0 => (0..n).collect(),
            1 => (0..n).rev().collect(),
            _ => (0..n).map(|i| if i % 2 == 0 { i / 2 } else { n - 1 - i / 2 }).collect(),
        };
        let spelled = |i: usize| -> String {
            let k = &sorted[i].0;
            if crate::engine::mix(&[c.seed, i as u64, 11]) % 3 == 0 {
                k.to_ascii_uppercase()
            } else {
                k.clone()
            }
        };
        let mut m: Model = Model::new();
        let mut q = Qualifiers::default();
        for &i in &order {
            let before = q.len();
            let slot = q.insert(spelled(i), sorted[i].1.as_str()).map_err(|e| format!("insert of the valid key {:?} failed: {e}", sorted[i].0))?;
            if slot.as_str() != sorted[i].1 {
                return Err(format!("insert({:?}) returns a reference to {:?}, not to the value just stored", sorted[i].0, slot.as_str()));
            }
            if q.len() != before + 1 {
                return Err(format!("insert of the new key {:?} (one of {n} distinct keys) did not add an entry", sorted[i].0));
            }
            m.insert(sorted[i].0.clone(), sorted[i].1.clone());
        }
        check_content(&q, &m, &format!("{n} inserts")).map_err(|e| e.chars().take(400).collect::<String>())?;
        let from_iter = Qualifiers::try_from_iter(order.iter().map(|&i| (spelled(i), sorted[i].1.as_str())))
            .map_err(|e| format!("try_from_iter over {n} distinct keys failed: {e}"))?;
        if from_iter != q || hash_of(&from_iter) != hash_of(&q) || from_iter.cmp(&q) != Ordering::Equal {
            return Err(format!("{n} keys: the collection made by try_from_iter differs from the one made by insert"));
        }
        // lookups in the other letter case
        for (i, (k, v)) in sorted.iter().enumerate() {
            let probe = if i % 2 == 0 { k.to_ascii_uppercase() } else { k.clone() };
            if q.get(probe.as_str()) != Some(v.as_str()) || !q.contains_key(probe.as_str()) {
                return Err(format!("{n} keys: get({probe:?}) gives {:?}, reference {v:?}", q.get(probe.as_str())));
            }
        }
        // thin out: remove, entry-remove, retain
        for (i, (k, v)) in sorted.iter().enumerate() {
            match i % 5 {
                0 => {
                    let got = q.remove(k.to_ascii_uppercase());
                    if got.as_deref() != Some(v.as_str()) {
                        return Err(format!("{n} keys: remove({k:?}) returned {got:?}, reference {v:?}"));
                    }
                    m.remove(k);
                },
                1 => {
                    match q.entry(k.as_str()).map_err(|e| format!("entry({k:?}) failed: {e}"))? {
                        Entry::Occupied(o) => {
                            let got = o.remove();
                            if got.as_str() != v.as_str() {
                                return Err(format!("{n} keys: entry({k:?}).remove() returned {got:?}, reference {v:?}"));
                            }
                        },
                        Entry::Vacant(_) => return Err(format!("{n} keys: entry({k:?}) is vacant although the key was inserted")),
                    }
                    m.remove(k);
                },
                _ => {},
            }
        }
        check_content(&q, &m, "removing two fifths").map_err(|e| e.chars().take(400).collect::<String>())?;
        q.retain(|k, _| k.as_str().len() % 2 == 0);
        m.retain(|k, _| k.len() % 2 == 0);
        check_content(&q, &m, "retain(even key length)").map_err(|e| e.chars().take(400).collect::<String>())?;
        for (k, _) in sorted.iter().step_by(3) {
            if q.contains_key(k.as_str()) != m.contains_key(k) {
                return Err(format!("{n} keys, after thinning out: contains_key({k:?}) is {}, reference {}", q.contains_key(k.as_str()), m.contains_key(k)));
            }
        }
        Ok(())
    });
    match r {
        Err(m) => return Err(format!("a qualifier operation panicked: {m}")),
        Ok(r) => r?,
    }
    st.class(match c.n {
        0..=9_999 => "thousands of keys",
        10_000..=65_535 => "tens of thousands of keys",
        _ => "more than 65535 keys",
    });
    st.nontrivial(&(c.seed, c.n, c.order), || json!({ "seed": c.seed, "keys": c.n, "order": c.order }));
    Ok(())
}

pub fn sections() -> Vec<Box<dyn Section>> {
    vec![
        Box::new(Random {
            name: "very-many-keys".into(),
            quick: 160,
            thorough: 4_000,
            strategy: Box::new(|_: Tier| crate::props::c02::gmany()),
            oracle: o_many,
            required: vec!["thousands of keys", "tens of thousands of keys", "more than 65535 keys"],
        }),
        Box::new(Enumerated {
            name: "every-content-x-every-operation".into(),
            total: Box::new(|_| enum_total()),
            make: Box::new(|_, i| enum_case(i)),
            oracle: o_case,
            required: vec!["mixed-case-key-hits-existing-entry", "removal-or-entry-api"],
            complete: true,
        }),
        Box::new(Enumerated {
            name: "pairs-of-operations".into(),
            total: Box::new(|t: Tier| match t {
                Tier::Thorough => pair_space(),
                Tier::Quick => pair_space() / 64,
            }),
            make: Box::new(pair_case),
            oracle: o_case,
            required: vec!["mixed-case-key-hits-existing-entry", "removal-or-entry-api"],
            complete: false,
        }),
        Box::new(Random {
            name: "random-sequences".into(),
            quick: 120_000,
            thorough: 5_000_000,
            strategy: Box::new(|_: Tier| gcase()),
            oracle: o_case,
            required: vec!["mixed-case-key-hits-existing-entry", "removal-or-entry-api"],
        }),
    ]
}

pub fn prop() -> Prop {
    Prop {
        id: "C11",
        sections,
        rule: "Operation sequences on Qualifiers (try_from_iter, with_capacity, reserve*, insert, entry + or_insert / \
               or_insert_with / and_modify, occupied get/get_mut/into_mut/insert/remove/remove_entry, vacant insert, get, \
               get_mut, contains_key, Index/IndexMut on present keys, remove, retain, retain_mut, clear, iter / iter_mut \
               consumed from both ends in a generated pattern with len() checked at every step, typed accessors, \
               QualifierKey ==/partial_cmp against ASCII text, as_str/Deref/Into<SmallString>). Exhaustive: each of the \
               64 contents over keys {a,b,c} x values {'',x,y} x every operation instance over the key universe {a A b B \
               c C ab '' ! 'a b' e-acute Kelvin-sign} x {'' x y}; all pairs of such operation instances from five contents \
               (complete in the thorough tier, every 64th in the quick tier). Random: up to 30 operations with arbitrary values. \
               Oracle: after every step content, len, forward and reverse iteration and every return value equal a \
               BTreeMap keyed by the ASCII-lower-cased key; at the end the content re-inserted in a shuffled order with \
               random key case is ==, cmp Equal, hashes alike, and a collection with different content is !=, not Equal \
               and antisymmetric. Non-trivial = sequence in which a mixed-case key hits an existing entry and a removal \
               or entry-API call occurs; distinct by hash of the sequence.",
        assumptions: &[
            "QualifierKey comparisons are judged against ASCII right-hand sides only (DESIGN.md 6.6)",
            "indexing an absent or invalid key is the documented panic and is not exercised here (C06 does)",
            "capacities requested are at most 64",
        ],
        extra: None,
    }
}

/// Re-used by C06 (a panic inside any operation is reported by `o_case`).
pub fn gcase_for_c06() -> BoxedStrategy<QCase> {
    gcase()
}

/// For C06: only a panic is C06's business; a disagreement with the reference map is C11's.
pub fn o_case_pub(c: &QCase, st: &mut Stats) -> Result<(), String> {
    match o_case(c, st) {
        Err(m) if m.contains("panicked") || m.contains("panic escaped") => Err(m),
        _ => {
            st.nontrivial(&(&c.init, &c.ops, "c06"), || json!({ "ops": c.ops.len() }));
            Ok(())
        },
    }
}

/// For C19: put a collection through the operations of a case; what each operation returns is C11's
/// business and is not looked at.
pub fn drive(q: &mut Qualifiers, c: &QCase) {
    // the collection may come with content (a builder re-opened from an existing value)
    let mut m: Model = q.iter().map(|(k, v)| (k.as_str().to_string(), v.to_string())).collect();
    for (k, v) in &c.init {
        let _ = step(q, &mut m, &QOp::Insert(k.clone(), v.clone()));
    }
    for op in &c.ops {
        let _ = step(q, &mut m, op);
    }
}

/// For the fuzz target `fz_api` without a scope: the full model-based judgement.
pub fn o_case_full(c: &QCase, st: &mut Stats) -> Result<(), String> {
    o_case(c, st)
}
