//! C14 - user-supplied package types: call protocol and post-hook validation.

use std::str::FromStr;

use proptest::prelude::*;
use purl::GenericPurl;
use serde::{Deserialize, Serialize};
use serde_json::json;

use crate::api::{observe, text, Inst, ParseInst};
use crate::buildprog::{gprogram, run, state, Op, Outcome, Program};
use crate::chars::is_valid_type;
use crate::engine::{guard, Random, Section, Stats};
use crate::fault::{inject, FaultCase};
use crate::model::{self, Obs};
use crate::props::c01::gfault;
use crate::props::Prop;
use crate::shape::{apply_model, gspec, set_spec, shape_err_kind, take_log, Event, HookExpect, PartsModel, ShapeError, ShapeSpec, TestShape};
use crate::spell::{gchoices, gtuple, spell, Tuple};

pub struct IShape;

thread_local! {
    static CURRENT: std::cell::RefCell<ShapeSpec> = std::cell::RefCell::new(ShapeSpec::default());
}

impl Inst for IShape {
    type E = ShapeError;
    type T = TestShape;

    const NAME: &'static str = "TestShape";
    const TYPED: bool = false;

    fn err_kind(e: &ShapeError) -> String {
        shape_err_kind(e)
    }

    fn make_type(s: &str) -> Option<TestShape> {
        Some(CURRENT.with(|c| TestShape::new(s, &c.borrow())))
    }
}

impl ParseInst for IShape {
    fn from_str(s: &str) -> Result<GenericPurl<TestShape>, ShapeError> {
        GenericPurl::<TestShape>::from_str(s)
    }
}

pub fn use_spec(spec: &ShapeSpec) {
    CURRENT.with(|c| *c.borrow_mut() = spec.clone());
    set_spec(spec);
}

#[derive(Clone, Debug, Serialize, Deserialize)]
pub struct ParseCase {
    pub tuple: Tuple,
    pub choices: Vec<u8>,
    pub spec: ShapeSpec,
}

#[derive(Clone, Debug, Serialize, Deserialize)]
pub struct FaultyCase {
    pub fault: FaultCase,
    pub spec: ShapeSpec,
}

#[derive(Clone, Debug, Serialize, Deserialize)]
pub struct BuildCase {
    pub program: Program,
    pub spec: ShapeSpec,
}

fn counts(log: &[Event]) -> (usize, usize) {
    (log.iter().filter(|e| matches!(e, Event::FromStr(_))).count(), log.iter().filter(|e| matches!(e, Event::Finish)).count())
}

/// Protocol facts that hold for every parse, valid input or not.
fn protocol_parse(input: &str, spec: &ShapeSpec, log: &[Event], result: &Result<Obs, String>) -> Result<(), String> {
    let (n_from, n_fin) = counts(log);
    if n_from > 1 {
        return Err(format!("from_str of the user type was called {n_from} times while parsing {input:?}"));
    }
    if n_fin > 1 {
        return Err(format!("finish was called {n_fin} times while parsing {input:?}"));
    }
    let mut converted = false;
    for e in log {
        match e {
            Event::FromStr(arg) => {
                if !is_valid_type(arg) {
                    return Err(format!("from_str was called with the syntactically invalid type {arg:?} (input {input:?})"));
                }
                if !input.contains(arg.as_str()) {
                    return Err(format!("from_str was called with {arg:?}, which is not a substring of the input {input:?}"));
                }
                converted = spec.conv_fail.is_none();
            },
            Event::Finish => {
                if !converted {
                    return Err(format!("finish was called before a successful conversion (input {input:?}, log {log:?})"));
                }
            },
        }
    }
    if n_from == 1 {
        if let Some(c) = spec.conv_fail {
            let want = format!("Conv({c})");
            if result.as_ref().err() != Some(&want) {
                return Err(format!("the conversion failed with {want} but parsing {input:?} returned {result:?}"));
            }
        }
    }
    if n_fin == 1 {
        if let Some(c) = spec.hook.iter().find_map(|a| if let crate::shape::Action::Fail(c) = a { Some(*c) } else { None }) {
            let want = format!("Hook({c})");
            if result.as_ref().err() != Some(&want) {
                return Err(format!("the hook failed with {want} but parsing {input:?} returned {result:?}"));
            }
        }
    }
    if result.is_ok() && (n_from != 1 || n_fin != 1) {
        return Err(format!("a PURL was produced from {input:?} with {n_from} conversions and {n_fin} finish calls"));
    }
    Ok(())
}

fn compare(o: &Obs, t: &str, ty: &str, m: &PartsModel, what: &str) -> Result<(), String> {
    let quals: Vec<(String, String)> = m.quals.iter().map(|(k, v)| (k.clone(), v.clone())).collect();
    let ok = o.ty == ty.to_ascii_lowercase()
        && o.name == m.name
        && o.version.as_deref().unwrap_or("") == m.version
        && o.quals == quals
        && model::opt_ns_segments(o.ns.as_deref()) == model::ns_segments(&m.ns)
        && model::opt_sub_segments(o.subpath.as_deref()) == model::sub_segments(&m.subpath);
    if !ok {
        return Err(format!("{what}: the PURL reports {o:?} but the hook left type {ty:?} and parts {m:?}"));
    }
    // "what the PURL prints": the same string as a PURL with a built-in type parameter and the same
    // parts prints (the shape of that string as such is C03's business, not C14's)
    let f = crate::props::c03::Fields {
        ty: o.ty.clone(),
        typed: false,
        ns: o.ns.clone().unwrap_or_default(),
        name: o.name.clone(),
        version: o.version.clone().unwrap_or_default(),
        quals: o.quals.clone(),
        subpath: o.subpath.clone().unwrap_or_default(),
    };
    if let Ok(Some(reference)) = crate::props::c03::build_fields::<crate::api::IStr>(&f) {
        if crate::api::observe(&reference) == *o {
            if let Ok(want) = text(&reference) {
                if t != want {
                    return Err(format!("{what}: prints {t:?} but a PURL with a built-in type and the same parts prints {want:?}"));
                }
            }
        }
    }
    Ok(())
}

#[derive(Clone, Debug, Serialize, Deserialize)]
pub struct RebuildCase {
    pub tuple: Tuple,
    pub choices: Vec<u8>,
    pub first: ShapeSpec,
    pub second: ShapeSpec,
}

/// A PURL that was already built once (parsed with one hook) is turned into a builder, given a type
/// with another hook, and built again: the hook runs once, the generic checks run after it.
fn o_rebuild(c: &RebuildCase, st: &mut Stats) -> Result<(), String> {
    if !c.tuple.in_domain() {
        return Err("bad replay case: tuple outside the domain".into());
    }
    let sp = spell(&c.tuple, &c.choices);
    let s = sp.assemble();
    use_spec(&c.first);
    let first = guard(|| GenericPurl::<TestShape>::from_str(&s)).map_err(|m| format!("parsing {s:?} panicked: {m}"))?;
    let _ = take_log();
    let Ok(p) = first else {
        st.class("first-build-refused");
        return Ok(());
    };
    let o1 = observe(&p);
    use_spec(&c.second);
    let shape = TestShape::new(&sp.ty, &c.second);
    let second = guard(move || p.into_builder().with_package_type(shape).build()).map_err(|m| format!("re-building panicked: {m}"))?;
    let log = take_log();
    let (n_from, n_fin) = counts(&log);
    if n_from != 0 || n_fin != 1 {
        return Err(format!("re-building called from_str {n_from} times and finish {n_fin} times"));
    }
    let base = PartsModel {
        ns: o1.ns.clone().unwrap_or_default(),
        name: o1.name.clone(),
        version: o1.version.clone().unwrap_or_default(),
        subpath: o1.subpath.clone().unwrap_or_default(),
        quals: o1.quals.iter().cloned().collect(),
    };
    match (apply_model(&c.second, base), &second) {
        (HookExpect::Ok(m), Ok(q)) => {
            let o = observe(q);
            let t = text(q).map_err(|m| format!("to_string() panicked: {m}"))?;
            compare(&o, &t, &sp.ty, &m, &format!("re-built from {s:?} (first hook {:?}) with hook {:?}", c.first.hook, c.second.hook))?;
            st.class("rebuild-ok");
        },
        (HookExpect::Err(reasons), Err(e)) => {
            let k = shape_err_kind(e);
            if !reasons.contains(&k) {
                return Err(format!("re-building {s:?} with hook {:?} failed with {k}; applicable: {reasons:?}", c.second.hook));
            }
            st.class("rebuild-refused-by-post-hook-check");
        },
        (e, r) => {
            return Err(format!(
                "re-building the PURL parsed from {s:?} with hook {:?}: expected {e:?}, got {:?}",
                c.second.hook,
                r.as_ref().map(observe).map_err(shape_err_kind)
            ))
        },
    }
    if is_edit_acted_on(&c.second) {
        st.nontrivial(&(&c.first, &c.second, s.as_str()), || json!({ "input": s, "first": c.first, "second": c.second }));
    }
    Ok(())
}

#[derive(Clone, Debug, Serialize, Deserialize)]
pub struct NewCase {
    pub ty: String,
    pub name: String,
    pub spec: ShapeSpec,
}

/// `GenericPurl::new(type, name)` is a third entry point: same protocol, same post-hook checks.
fn o_new(c: &NewCase, st: &mut Stats) -> Result<(), String> {
    let ty = if is_valid_type(&c.ty) { c.ty.clone() } else { "x.y".to_string() };
    use_spec(&c.spec);
    let shape = TestShape::new(&ty, &c.spec);
    let name = c.name.clone();
    let r = guard(move || GenericPurl::new(shape, name.as_str())).map_err(|m| format!("GenericPurl::new panicked: {m}"))?;
    let log = take_log();
    let (n_from, n_fin) = counts(&log);
    if n_from != 0 || n_fin != 1 {
        return Err(format!("GenericPurl::new called from_str {n_from} times and finish {n_fin} times"));
    }
    let base = PartsModel { ns: String::new(), name: c.name.clone(), version: String::new(), subpath: String::new(), quals: Default::default() };
    match (apply_model(&c.spec, base), &r) {
        (HookExpect::Ok(m), Ok(q)) => {
            let o = observe(q);
            let t = text(q).map_err(|m| format!("to_string() panicked: {m}"))?;
            compare(&o, &t, &ty, &m, &format!("GenericPurl::new({ty:?}, {:?}) with hook {:?}", c.name, c.spec.hook))?;
            st.class("new-ok");
        },
        (HookExpect::Err(reasons), Err(e)) => {
            let k = shape_err_kind(e);
            if !reasons.contains(&k) {
                return Err(format!("GenericPurl::new with hook {:?} failed with {k}; applicable: {reasons:?}", c.spec.hook));
            }
            st.class("new-refused");
        },
        (e, r) => {
            return Err(format!(
                "GenericPurl::new({ty:?}, {:?}) with hook {:?}: expected {e:?}, got {:?}",
                c.name,
                c.spec.hook,
                r.as_ref().map(observe).map_err(shape_err_kind)
            ))
        },
    }
    if is_edit_acted_on(&c.spec) {
        st.nontrivial(&(&c.spec, &c.name, "new"), || json!(c));
    }
    Ok(())
}

fn is_edit_acted_on(spec: &ShapeSpec) -> bool {
    spec.conv_fail.is_some()
        || spec.hook.iter().any(|a| {
            matches!(
                a,
                crate::shape::Action::Fail(_)
                    | crate::shape::Action::ClearName
                    | crate::shape::Action::InsertChecksum(..)
                    | crate::shape::Action::IndexSet(..)
                    | crate::shape::Action::SetName(_)
            ) || matches!(a, crate::shape::Action::InsertQualifier(_, v) if v.is_empty())
        })
}

pub fn o_parse(c: &ParseCase, st: &mut Stats) -> Result<(), String> {
    if !c.tuple.in_domain() {
        return Err("bad replay case: tuple outside the domain".into());
    }
    let sp = spell(&c.tuple, &c.choices);
    let s = sp.assemble();
    use_spec(&c.spec);
    let res = guard(|| GenericPurl::<TestShape>::from_str(&s));
    let log = take_log();
    let res = match res {
        Err(m) => return Err(format!("parsing {s:?} with a user type panicked: {m}")),
        Ok(r) => r,
    };
    let summary: Result<Obs, String> = match &res {
        Ok(p) => Ok(observe(p)),
        Err(e) => Err(shape_err_kind(e)),
    };
    protocol_parse(&s, &c.spec, &log, &summary)?;
    // a valid spelling always reaches the conversion, with the type exactly as written
    match log.first() {
        Some(Event::FromStr(arg)) if *arg == sp.ty => {},
        other => return Err(format!("valid input {s:?}: expected from_str({:?}) first, log starts with {other:?}", sp.ty)),
    }
    if c.spec.conv_fail.is_some() {
        st.class("conversion-fails");
        st.nontrivial(&(&c.spec, s.as_str()), || json!({ "input": s, "spec": c.spec, "result": summary }));
        return Ok(());
    }
    let (_, n_fin) = counts(&log);
    if n_fin != 1 {
        return Err(format!("valid input {s:?}: finish was called {n_fin} times"));
    }
    let e = c.tuple.expected(false);
    let base = PartsModel {
        ns: e.ns.clone().unwrap_or_default(),
        name: e.name.clone(),
        version: e.version.clone().unwrap_or_default(),
        subpath: e.subpath.clone().unwrap_or_default(),
        quals: e.quals.iter().cloned().collect(),
    };
    match (apply_model(&c.spec, base), &res) {
        (HookExpect::Ok(m), Ok(p)) => {
            let o = observe(p);
            let t = text(p).map_err(|m| format!("to_string() panicked for the PURL parsed from {s:?}: {m}"))?;
            compare(&o, &t, &sp.ty, &m, &format!("parsed from {s:?} with hook {:?}", c.spec.hook))?;
            st.class("hook-ok");
        },
        (HookExpect::Ok(m), Err(e)) => {
            return Err(format!("{s:?} with hook {:?} must give parts {m:?} but failed with {}", c.spec.hook, shape_err_kind(e)))
        },
        (HookExpect::Err(reasons), Ok(p)) => {
            return Err(format!("{s:?} with hook {:?} must fail with one of {reasons:?} but produced {:?}", c.spec.hook, observe(p)))
        },
        (HookExpect::Err(reasons), Err(e)) => {
            let k = shape_err_kind(e);
            if !reasons.contains(&k) {
                return Err(format!("{s:?} with hook {:?} failed with {k}; applicable: {reasons:?}", c.spec.hook));
            }
            st.class("post-hook-check-refuses");
        },
    }
    if is_edit_acted_on(&c.spec) {
        st.nontrivial(&(&c.spec, s.as_str()), || json!({ "input": s, "spec": c.spec, "result": summary }));
    }
    Ok(())
}

fn o_faulty(c: &FaultyCase, st: &mut Stats) -> Result<(), String> {
    let Some(f) = inject(&c.fault) else { return Ok(()) };
    use_spec(&c.spec);
    let res = guard(|| GenericPurl::<TestShape>::from_str(&f.text));
    let log = take_log();
    let res = match res {
        Err(m) => return Err(format!("parsing {:?} with a user type panicked: {m}", f.text)),
        Ok(r) => r,
    };
    let summary: Result<Obs, String> = match &res {
        Ok(p) => Ok(observe(p)),
        Err(e) => Err(shape_err_kind(e)),
    };
    protocol_parse(&f.text, &c.spec, &log, &summary)?;
    let (n_from, n_fin) = counts(&log);
    st.class(match (n_from, n_fin) {
        (0, _) => "faulty-input-refused-before-conversion",
        (_, 0) => "faulty-input-refused-between-conversion-and-hook",
        _ => "faulty-input-reaches-hook",
    });
    if summary.is_ok() {
        st.class("faulty-input-rescued-by-hook");
    }
    st.nontrivial(&(&c.spec, f.text.as_str()), || json!({ "input": f.text, "spec": c.spec, "result": summary }));
    Ok(())
}

fn sanitize(mut p: Program) -> Program {
    let fix = |t: &mut String| {
        if !is_valid_type(t) {
            *t = "x.y".to_string();
        }
    };
    fix(&mut p.ty);
    for op in &mut p.ops {
        if let Op::Type(t) | Op::PartsType(t) = op {
            fix(t);
        }
    }
    p
}

pub fn o_build(c: &BuildCase, st: &mut Stats) -> Result<(), String> {
    let program = sanitize(c.program.clone());
    use_spec(&c.spec);
    let (out, built) = run::<IShape>(&program);
    let log = take_log();
    let (n_from, n_fin) = counts(&log);
    if n_from != 0 {
        return Err(format!("the builder called from_str of the user type ({log:?})"));
    }
    let stt = state(&program);
    match (&stt, &out) {
        (_, Outcome::Panicked(m)) => return Err(format!("builder program with a user type panicked: {m}")),
        (Err((i, k)), Outcome::CallErr(j, l)) if i == j && k == l => {
            if n_fin != 0 {
                return Err("finish was called although build() was never reached".into());
            }
            st.class("call-err");
            return Ok(());
        },
        (Err(e), o) => return Err(format!("the model expects the call failure {e:?}, got {o:?}")),
        (Ok(_), Outcome::CallErr(i, k)) => return Err(format!("call {i} failed with {k} but all calls are valid")),
        _ => {},
    }
    if n_fin != 1 {
        return Err(format!("finish was called {n_fin} times for one build() (program {:?})", program.ops));
    }
    let s = stt.unwrap();
    let base = PartsModel { ns: s.ns, name: s.name, version: s.version, subpath: s.subpath, quals: s.quals };
    match (apply_model(&c.spec, base), &out) {
        (HookExpect::Ok(m), Outcome::Built(o, t)) => {
            compare(o, t, &s.ty, &m, &format!("built by {:?} with hook {:?}", program.ops, c.spec.hook))?;
            let _ = built;
            st.class("hook-ok");
        },
        (HookExpect::Err(reasons), Outcome::BuildErr(k)) => {
            if !reasons.contains(k) {
                return Err(format!("build() with hook {:?} failed with {k}; applicable: {reasons:?}", c.spec.hook));
            }
            st.class("post-hook-check-refuses");
        },
        (e, o) => return Err(format!("build() with hook {:?}: expected {e:?}, got {o:?}", c.spec.hook)),
    }
    if is_edit_acted_on(&c.spec) {
        st.nontrivial(&(&c.spec, &program), || json!({ "program": program, "spec": c.spec }));
    }
    Ok(())
}

pub fn sections() -> Vec<Box<dyn Section>> {
    vec![
        Box::new(Random {
            name: "parse-valid-spelling".into(),
            quick: 150_000,
            thorough: 5_000_000,
            strategy: Box::new(|_| {
                (gtuple(false), gchoices(), gspec()).prop_map(|(tuple, choices, spec)| ParseCase { tuple, choices, spec }).boxed()
            }),
            oracle: o_parse,
            required: vec!["conversion-fails", "hook-ok", "post-hook-check-refuses"],
        }),
        Box::new(Random {
            name: "parse-faulty-input".into(),
            quick: 80_000,
            thorough: 2_500_000,
            strategy: Box::new(|_| (gfault(), gspec()).prop_map(|(fault, spec)| FaultyCase { fault, spec }).boxed()),
            oracle: o_faulty,
            required: vec![
                "faulty-input-refused-before-conversion",
                "faulty-input-refused-between-conversion-and-hook",
                "faulty-input-reaches-hook",
                "faulty-input-rescued-by-hook",
            ],
        }),
        Box::new(crate::engine::Enumerated {
            name: "hook-inserts-checksum-digest-with-every-scalar".into(),
            total: Box::new(|_| 2 * 0x110000u64),
            make: Box::new(|_, i| {
                let c = char::from_u32((i / 2) as u32)?;
                if c == ',' {
                    return None;
                }
                let text = if i % 2 == 0 { format!("sha1:00{c}{c}") } else { format!("md5:0a,sha1:{c}0") };
                Some(BuildCase {
                    program: Program { ty: "custom".into(), name: "n".into(), ops: vec![crate::buildprog::Op::Qualifier("arch".into(), "x".into())] },
                    spec: ShapeSpec { conv_fail: None, hook: vec![crate::shape::Action::InsertChecksum("checksum".into(), text)] },
                })
            }),
            oracle: o_build,
            required: vec![],
            complete: true,
        }),
        Box::new(Random {
            name: "builder-programs".into(),
            quick: 100_000,
            thorough: 3_000_000,
            strategy: Box::new(|_| (gprogram(false), gspec()).prop_map(|(program, spec)| BuildCase { program, spec }).boxed()),
            oracle: o_build,
            required: vec!["call-err", "hook-ok", "post-hook-check-refuses"],
        }),
        Box::new(Random {
            name: "rebuild-with-another-hook".into(),
            quick: 100_000,
            thorough: 3_000_000,
            strategy: Box::new(|_| {
                (gtuple(false), gchoices(), gspec(), gspec())
                    .prop_map(|(tuple, choices, first, second)| RebuildCase { tuple, choices, first, second })
                    .boxed()
            }),
            oracle: o_rebuild,
            required: vec!["first-build-refused", "rebuild-ok", "rebuild-refused-by-post-hook-check"],
        }),
        Box::new(Random {
            name: "new-entry-point".into(),
            quick: 60_000,
            thorough: 2_000_000,
            strategy: Box::new(|_| {
                (crate::chars::gtype(), crate::buildprog::garg(), gspec()).prop_map(|(ty, name, spec)| NewCase { ty, name, spec }).boxed()
            }),
            oracle: o_new,
            required: vec!["new-ok", "new-refused"],
        }),
    ]
}

pub fn prop() -> Prop {
    Prop {
        id: "C14",
        sections,
        rule: "Members of a parameterised family of PurlShape + FromStr implementations (conversion succeeds or fails with a \
               code; hook = list of actions: fail with a code, clear / set / lower-case the name, rewrite namespace, \
               version, subpath, insert empty / valid / invalid-key qualifiers, insert well-formed non-canonical or \
               malformed checksums, remove or clear qualifiers, overwrite a qualifier in place through IndexMut) \
               applied to valid spellings, single-fault spellings, builder programs, GenericPurl::new, and to PURLs that \
               were already built once and are re-built with another hook. Oracles: call protocol from a log kept by the test shape (conversion at most once, only \
               with a valid type substring exactly as written; finish exactly once per build(), never before a \
               successful conversion; errors returned unchanged) and a model: base parts, then the hook's actions, then \
               the generic post-checks (name non-empty, empty values dropped, checksum canonical or InvalidQualifier); \
               string == renderer(accessors). Non-trivial = the conversion fails, or the hook fails / clears or sets the \
               name / inserts a checksum or an empty-valued qualifier; distinct by hash of (spec, input).",
        assumptions: &[
            "namespace and subpath written by the hook are compared after dropping insignificant segments",
            "builder programs for user types use syntactically valid type strings (an invalid one makes Display panic, which is documented)",
        ],
        extra: None,
    }
}

/// For C06: the user-shape scenarios, judged for panics only.
pub fn panics_only<C>(oracle: fn(&C, &mut Stats) -> Result<(), String>, c: &C, st: &mut Stats) -> Result<(), String> {
    match oracle(c, st) {
        Err(m) if m.contains("panicked") || m.contains("panic escaped") => Err(m),
        _ => Ok(()),
    }
}

pub fn c06_parse(c: &ParseCase, st: &mut Stats) -> Result<(), String> {
    panics_only(o_parse, c, st)
}

pub fn c06_build(c: &BuildCase, st: &mut Stats) -> Result<(), String> {
    panics_only(o_build, c, st)
}

pub fn c06_rebuild(c: &RebuildCase, st: &mut Stats) -> Result<(), String> {
    panics_only(o_rebuild, c, st)
}

pub fn gparse_case() -> BoxedStrategy<ParseCase> {
    (gtuple(false), gchoices(), gspec()).prop_map(|(tuple, choices, spec)| ParseCase { tuple, choices, spec }).boxed()
}

pub fn gbuild_case() -> BoxedStrategy<BuildCase> {
    (gprogram(false), gspec()).prop_map(|(program, spec)| BuildCase { program, spec }).boxed()
}

pub fn grebuild_case() -> BoxedStrategy<RebuildCase> {
    (gtuple(false), gchoices(), gspec(), gspec()).prop_map(|(tuple, choices, first, second)| RebuildCase { tuple, choices, first, second }).boxed()
}
