//! C04 - every PURL value handed out is valid and normalised.

use std::str::FromStr;

use proptest::prelude::*;
use purl::{GenericPurl, PurlShape};
use serde::{Deserialize, Serialize};
use serde_json::json;

use crate::api::{observe, parse, ICowB, ICowO, ISmall, IStr, ITyped, Inst, ParseInst};
use crate::buildprog::{gprogram, run, Program};
use crate::engine::{guard, Enumerated, Random, Section, Stats, Tier};
use crate::gens::{gcorpus_mut, gsoup, strata, strata_make, strata_total};
use crate::props::c01::{gfault, gspelled, SpelledCase};
use crate::props::c14::{use_spec, IShape};
use crate::props::Prop;
use crate::shape::{gspec, take_log, ShapeSpec, TestShape};
use crate::spell::{gchoices, gtuple, spell, Tuple};

/// The validity predicate of the statement.
pub fn valid<T: PurlShape>(p: &GenericPurl<T>, builtin: bool, origin: &str) -> Result<(), String> {
    let o = observe(p);
    let fail = |m: String| Err(format!("{origin}: {m} (value {o:?})"));
    if o.name.is_empty() {
        return fail("the name is empty".into());
    }
    if o.ns.as_deref() == Some("") || o.version.as_deref() == Some("") || o.subpath.as_deref() == Some("") {
        return fail("an optional field is reported as Some(\"\")".into());
    }
    if builtin && (o.ty.is_empty() || !o.ty.bytes().all(|b| b.is_ascii_lowercase() || b.is_ascii_digit() || matches!(b, b'.' | b'+' | b'-'))) {
        return fail(format!("the type string {:?} is not lower-case [a-z0-9.+-]+", o.ty));
    }
    let mut prev: Option<&str> = None;
    for (k, v) in &o.quals {
        if k.is_empty() || !k.bytes().all(|b| b.is_ascii_lowercase() || b.is_ascii_digit() || matches!(b, b'.' | b'_' | b'-')) {
            return fail(format!("qualifier key {k:?} is not a valid lower-case key"));
        }
        if let Some(p) = prev {
            if p.as_bytes() >= k.as_bytes() {
                return fail(format!("qualifier keys are not strictly ascending: {p:?} then {k:?}"));
            }
        }
        prev = Some(k);
        if v.is_empty() {
            return fail(format!("qualifier {k:?} has an empty value"));
        }
        if p.qualifiers().get(k.as_str()) != Some(v.as_str()) {
            return fail(format!("qualifier {k:?} is not retrievable by its key"));
        }
        if k == "checksum" {
            let mut prev_alg: Option<&str> = None;
            for entry in v.split(',') {
                let Some(i) = entry.rfind(':') else { return fail(format!("checksum entry {entry:?} has no ':'")) };
                let (alg, hex) = (&entry[..i], &entry[i + 1..]);
                if hex.len() % 2 != 0 || !hex.bytes().all(|b| b.is_ascii_hexdigit()) {
                    return fail(format!("checksum entry {entry:?} has odd or non-hex digits"));
                }
                if let Some(pa) = prev_alg {
                    if pa.as_bytes() >= alg.as_bytes() {
                        return fail(format!("checksum algorithms not strictly ascending: {pa:?} then {alg:?}"));
                    }
                }
                prev_alg = Some(alg);
            }
            if v.bytes().any(|b| b.is_ascii_uppercase()) {
                return fail(format!("checksum {v:?} contains an ASCII upper-case letter"));
            }
        }
    }
    Ok(())
}

fn note<T: PurlShape>(p: &GenericPurl<T>, inst: &str, st: &mut Stats, origin: impl FnOnce() -> serde_json::Value) {
    let o = observe(p);
    st.class("ok-value");
    st.class_if(o.quals.iter().any(|(k, _)| k == "checksum"), "ok-value-with-checksum");
    if !o.quals.is_empty() || o.ns.is_some() || o.version.is_some() || o.subpath.is_some() {
        let t = crate::api::text(p).unwrap_or_default();
        st.nontrivial(&(inst, t.as_str()), origin);
    }
}

fn parsed<I: ParseInst>(s: &str, st: &mut Stats) -> Result<(), String> {
    let Ok(Ok(p)) = parse::<I>(s) else { return Ok(()) };
    valid(&p, true, &format!("[{}] parsed from {s:?}", I::NAME))?;
    note(&p, I::NAME, st, || json!({ "inst": I::NAME, "parsed_from": s }));
    Ok(())
}

pub fn parsed_all(s: &str, st: &mut Stats) -> Result<(), String> {
    parsed::<IStr>(s, st)?;
    parsed::<ISmall>(s, st)?;
    parsed::<ITyped>(s, st)
}

fn o_string(s: &String, st: &mut Stats) -> Result<(), String> {
    parsed_all(s, st)
}

fn o_spelled(c: &SpelledCase, st: &mut Stats) -> Result<(), String> {
    parsed_all(&spell(&c.tuple, &c.choices).assemble(), st)
}

fn o_fault(c: &crate::fault::FaultCase, st: &mut Stats) -> Result<(), String> {
    match crate::fault::inject(c) {
        Some(f) => parsed_all(&f.text, st),
        None => Ok(()),
    }
}

#[derive(Clone, Debug, Serialize, Deserialize)]
pub struct ProgramCase {
    pub program: Program,
    pub typed: bool,
}

fn built<I: Inst>(p: &Program, st: &mut Stats) -> Result<(), String> {
    let (_, v) = run::<I>(p);
    if let Some(v) = v {
        valid(&v, true, &format!("[{}] built by {p:?}", I::NAME))?;
        st.class_if(p.ops.iter().any(|o| matches!(o, crate::buildprog::Op::Qualifier(_, v) if v.is_empty())), "built-after-empty-valued-with_qualifier");
        note(&v, I::NAME, st, || json!({ "inst": I::NAME, "program": p }));
    }
    Ok(())
}

fn o_program(c: &ProgramCase, st: &mut Stats) -> Result<(), String> {
    if c.typed {
        built::<ITyped>(&c.program, st)
    } else {
        built::<IStr>(&c.program, st)?;
        built::<ICowB>(&c.program, st)?;
        built::<ICowO>(&c.program, st)?;
        built::<ISmall>(&c.program, st)
    }
}

#[derive(Clone, Debug, Serialize, Deserialize)]
pub struct ShapeCase {
    pub tuple: Tuple,
    pub choices: Vec<u8>,
    pub program: Program,
    pub spec: ShapeSpec,
}

fn o_shape(c: &ShapeCase, st: &mut Stats) -> Result<(), String> {
    // parser path
    let s = spell(&c.tuple, &c.choices).assemble();
    use_spec(&c.spec);
    let r = guard(|| GenericPurl::<TestShape>::from_str(&s));
    let _ = take_log();
    if let Ok(Ok(p)) = r {
        valid(&p, false, &format!("[TestShape] parsed from {s:?} with hook {:?}", c.spec.hook))?;
        st.class("hook-edited-value");
        note(&p, "TestShape", st, || json!({ "parsed_from": s, "spec": c.spec }));
    }
    // builder path
    let mut program = c.program.clone();
    let fix = |t: &mut String| {
        if !crate::chars::is_valid_type(t) {
            *t = "x.y".into()
        }
    };
    fix(&mut program.ty);
    for op in &mut program.ops {
        if let crate::buildprog::Op::Type(t) | crate::buildprog::Op::PartsType(t) = op {
            fix(t);
        }
    }
    use_spec(&c.spec);
    let (_, v) = run::<IShape>(&program);
    let _ = take_log();
    if let Some(v) = v {
        valid(&v, false, &format!("[TestShape] built by {program:?} with hook {:?}", c.spec.hook))?;
        st.class("hook-edited-value");
        note(&v, "TestShape", st, || json!({ "program": program, "spec": c.spec }));
    }
    Ok(())
}

pub fn sections() -> Vec<Box<dyn Section>> {
    vec![
        Box::new(Random {
            name: "parsed-spelled".into(),
            quick: 150_000,
            thorough: 5_000_000,
            strategy: Box::new(|_| gspelled()),
            oracle: o_spelled,
            required: vec!["ok-value", "ok-value-with-checksum"],
        }),
        Box::new(Random {
            name: "parsed-faulted".into(),
            quick: 50_000,
            thorough: 1_500_000,
            strategy: Box::new(|_| gfault()),
            oracle: o_fault,
            required: vec![],
        }),
        Box::new(Random {
            name: "parsed-soup".into(),
            quick: 200_000,
            thorough: 6_000_000,
            strategy: Box::new(|_| prop_oneof![gsoup(), gcorpus_mut()].boxed()),
            oracle: o_string,
            required: vec!["ok-value"],
        }),
        Box::new(Enumerated {
            name: "parsed-token-language".into(),
            total: Box::new(|t: Tier| strata_total(&strata(t.pick(4, 5), t.pick(5, 6)))),
            make: Box::new(|t: Tier, i| strata_make(&strata(t.pick(4, 5), t.pick(5, 6)), i)),
            oracle: o_string,
            required: vec!["ok-value", "ok-value-with-checksum"],
            complete: true,
        }),
        Box::new(Random {
            name: "built-string-cow-smallstring".into(),
            quick: 120_000,
            thorough: 4_000_000,
            strategy: Box::new(|_| gprogram(false).prop_map(|program| ProgramCase { program, typed: false }).boxed()),
            oracle: o_program,
            required: vec!["ok-value", "ok-value-with-checksum", "built-after-empty-valued-with_qualifier"],
        }),
        Box::new(Random {
            name: "built-package-type".into(),
            quick: 100_000,
            thorough: 3_000_000,
            strategy: Box::new(|_| gprogram(true).prop_map(|program| ProgramCase { program, typed: true }).boxed()),
            oracle: o_program,
            required: vec!["ok-value", "ok-value-with-checksum"],
        }),
        Box::new(Random {
            name: "user-shape-hook-edits".into(),
            quick: 100_000,
            thorough: 3_000_000,
            strategy: Box::new(|_| {
                (gtuple(false), gchoices(), gprogram(false), gspec())
                    .prop_map(|(tuple, choices, program, spec)| ShapeCase { tuple, choices, program, spec })
                    .boxed()
            }),
            oracle: o_shape,
            required: vec!["hook-edited-value", "ok-value-with-checksum"],
        }),
    ]
}

pub fn prop() -> Prop {
    Prop {
        id: "C04",
        sections,
        rule: "Every Ok value produced by: the parser on generated spellings, single-fault spellings, token soup, mutated \
               conformance strings and the complete bounded token language (String, SmallString, PackageType); builder \
               programs for String, Cow::Borrowed, Cow::Owned, SmallString and PackageType; parses and builds with \
               user-written shapes whose finish hook edits the parts arbitrarily. Oracle: the validity predicate of the \
               statement (non-empty name, no Some(\"\"), keys valid/lower-case/strictly ascending/retrievable with \
               non-empty values, lower-case valid type for built-in parameters, checksum = strictly ascending alg:hex \
               entries without ASCII upper-case and with an even number of hex digits). Non-trivial = an Ok value with a \
               qualifier or an optional field; distinct by hash of (type parameter, canonical string).",
        assumptions: &["values that cannot be produced (Err) are not judged here"],
        extra: None,
    }
}
