//! C16 - the serde form is exactly the string form.

use proptest::prelude::*;
use purl::GenericPurl;
use serde::de::value::{BorrowedBytesDeserializer, BorrowedStrDeserializer, BytesDeserializer, Error as ValueError, StrDeserializer, StringDeserializer};
use serde::Deserialize;
use serde_json::{json, Value};

use crate::api::{observe, parse, text, IStr, ITyped, ParseInst};
use crate::engine::{guard, Random, Section, Stats};
use crate::gens::{gcorpus_mut, gsoup};
use crate::props::c01::{gfault, gspelled, SpelledCase};
use crate::props::Prop;
use crate::spell::spell;

fn judge<I: ParseInst>(s: &str, st: &mut Stats) -> Result<(), String>
where
    GenericPurl<I::T>: serde::Serialize + for<'de> Deserialize<'de>,
{
    let direct = match parse::<I>(s) {
        Err(_) => return Ok(()),
        Ok(r) => r,
    };
    let js = serde_json::to_string(s).unwrap();
    let via_json = guard(|| serde_json::from_str::<GenericPurl<I::T>>(&js)).map_err(|m| format!("[{}] deserialising {js} panicked: {m}", I::NAME))?;
    let via_str = GenericPurl::<I::T>::deserialize(StrDeserializer::<ValueError>::new(s));
    let via_string = GenericPurl::<I::T>::deserialize(StringDeserializer::<ValueError>::new(s.to_string()));
    let via_borrowed = GenericPurl::<I::T>::deserialize(BorrowedStrDeserializer::<ValueError>::new(s));
    let via_value = serde_json::from_value::<GenericPurl<I::T>>(Value::String(s.to_string()));
    match &direct {
        Err(k) => {
            if via_json.is_ok() || via_str.is_ok() || via_string.is_ok() || via_borrowed.is_ok() || via_value.is_ok() {
                return Err(format!("[{}] {s:?} is refused by from_str ({k}) but accepted by Deserialize", I::NAME));
            }
            st.class("refused-both-ways");
            st.nontrivial(&(I::NAME, s), || json!({ "inst": I::NAME, "string": s, "from_str": k }));
        },
        Ok(p) => {
            for (how, r) in [
                ("serde_json::from_str", via_json.map_err(|e| e.to_string())),
                ("StrDeserializer", via_str.map_err(|e| e.to_string())),
                ("StringDeserializer", via_string.map_err(|e| e.to_string())),
                ("BorrowedStrDeserializer", via_borrowed.map_err(|e| e.to_string())),
                ("serde_json::from_value", via_value.map_err(|e| e.to_string())),
            ] {
                match r {
                    Ok(q) if q == *p => {},
                    Ok(q) => return Err(format!("[{}] {how} of {s:?} gives {:?}, from_str gives {:?}", I::NAME, observe(&q), observe(p))),
                    Err(e) => return Err(format!("[{}] {s:?} is accepted by from_str but {how} fails: {e}", I::NAME)),
                }
            }
            // serialise: exactly the canonical string, as one string value
            let t = text(p).map_err(|m| format!("[{}] to_string() panicked: {m}", I::NAME))?;
            let ser = guard(|| serde_json::to_string(p)).map_err(|m| format!("[{}] serialising panicked: {m}", I::NAME))?.map_err(|e| e.to_string())?;
            if ser != serde_json::to_string(&t).unwrap() {
                return Err(format!("[{}] the PURL {t:?} serialises as {ser}", I::NAME));
            }
            match serde_json::to_value(p) {
                Ok(Value::String(v)) if v == t => {},
                other => return Err(format!("[{}] to_value of {t:?} gives {other:?}", I::NAME)),
            }
            // serde's own `Serializer for &mut fmt::Formatter`: whatever flags the formatter carries, what
            // arrives is the canonical string (or the canonical string padded / truncated as a whole)
            {
                struct ViaFormatter<'a, P>(&'a P);
                impl<P: serde::Serialize> std::fmt::Display for ViaFormatter<'_, P> {
                    fn fmt(&self, f: &mut std::fmt::Formatter<'_>) -> std::fmt::Result {
                        self.0.serialize(f)
                    }
                }
                crate::api::check_flags(&ViaFormatter(p), &t, &format!("[{}] serialised into a fmt::Formatter", I::NAME))?;
            }
            // `Deserialize::deserialize_in_place` over a value that already holds something else in every
            // component: afterwards it is the new PURL, nothing of the old one is left
            if let Ok(Ok(old)) = parse::<I>("pkg:npm/%40old-scope/old-name@0.1?arch=x86&old=1#old/sub") {
                let mut place = old;
                let mut de = serde_json::Deserializer::from_str(&ser);
                let r = guard(|| {
                    let r = <GenericPurl<I::T> as Deserialize>::deserialize_in_place(&mut de, &mut place);
                    (r.map_err(|e| e.to_string()), place)
                })
                .map_err(|m| format!("[{}] deserialize_in_place panicked: {m}", I::NAME))?;
                match r {
                    (Ok(()), now) if now == *p => {},
                    (Ok(()), now) => return Err(format!("[{}] deserialize_in_place of {ser} over another value gives {:?}, expected {:?}", I::NAME, observe(&now), observe(p))),
                    (Err(e), _) => return Err(format!("[{}] deserialize_in_place of {ser} fails: {e}", I::NAME)),
                }
            }
            // JSON round trip
            match serde_json::from_str::<GenericPurl<I::T>>(&ser) {
                Ok(q) if q == *p => {},
                Ok(q) => return Err(format!("[{}] JSON round trip of {t:?} changes the PURL: {:?} -> {:?}", I::NAME, observe(p), observe(&q))),
                Err(e) => return Err(format!("[{}] the serialised form {ser} of an accepted PURL does not deserialise: {e}", I::NAME)),
            }
            // byte values are not strings either, even when they spell the canonical string
            if GenericPurl::<I::T>::deserialize(BytesDeserializer::<ValueError>::new(t.as_bytes())).is_ok()
                || GenericPurl::<I::T>::deserialize(BorrowedBytesDeserializer::<ValueError>::new(t.as_bytes())).is_ok()
            {
                return Err(format!("[{}] a byte-string value spelling {t:?} deserialises into a PURL", I::NAME));
            }
            // serialising is a pure function of the value: a serialisation that the serializer aborts must
            // not influence the next one
            {
                use serde::Serialize;
                let limit = t.len() / 2;
                let aborted = p.serialize(LimitedStringSerializer { limit, human: true });
                if limit < t.len() && aborted.is_ok() {
                    return Err(format!("[{}] a serializer limited to {limit} bytes accepted {t:?}", I::NAME));
                }
                match p.serialize(LimitedStringSerializer { limit: usize::MAX, human: true }) {
                    Ok(s2) if s2 == t => {},
                    other => return Err(format!("[{}] after an aborted serialisation, {t:?} serialises as {other:?}", I::NAME)),
                }
                let again = serde_json::to_string(p).map_err(|e| e.to_string())?;
                if again != ser {
                    return Err(format!("[{}] after an aborted serialisation, {t:?} serialises as {again}", I::NAME));
                }
            }
            // a format that is not self-describing (only the hinted `deserialize_str` works) and one that is not
            // human readable still carry a PURL as its string
            for human in [true, false] {
                match GenericPurl::<I::T>::deserialize(StrOnlyDeserializer { text: &t, human }) {
                    Ok(q) if q == *p => {},
                    other => {
                        return Err(format!(
                            "[{}] a deserializer that only answers deserialize_str (human_readable = {human}) for {t:?} gives {:?}",
                            I::NAME,
                            other.map(|q| observe(&q)).map_err(|e| e.to_string())
                        ))
                    },
                }
            }
            {
                use serde::Serialize;
                match p.serialize(LimitedStringSerializer { limit: usize::MAX, human: false }) {
                    Ok(s2) if s2 == t => {},
                    other => return Err(format!("[{}] a serializer that is not human readable gets {other:?} for {t:?}", I::NAME)),
                }
            }
            // values that are not strings are refused, even when they contain the string
            for v in [json!(null), json!(true), json!(1), json!(1.5), json!([t]), json!({ "purl": t }), json!({ t.clone(): 1 })] {
                if serde_json::from_value::<GenericPurl<I::T>>(v.clone()).is_ok() {
                    return Err(format!("[{}] the non-string JSON value {v} deserialises into a PURL", I::NAME));
                }
            }
            st.class("accepted-both-ways");
            if ser.contains('\\') || t.contains('%') || t != s {
                st.nontrivial(&(I::NAME, s), || json!({ "inst": I::NAME, "string": s, "json": ser }));
            }
        },
    }
    Ok(())
}

/// A serializer that accepts a string up to `limit` bytes and refuses everything else.
struct LimitedStringSerializer {
    limit: usize,
    human: bool,
}

/// A deserializer of a format that is not self-describing: it can only answer the hint it is given, and it
/// holds a string.
struct StrOnlyDeserializer<'a> {
    text: &'a str,
    human: bool,
}

impl<'de, 'a> serde::Deserializer<'de> for StrOnlyDeserializer<'a> {
    type Error = ValueError;

    fn deserialize_any<V: serde::de::Visitor<'de>>(self, _: V) -> Result<V::Value, ValueError> {
        Err(serde::de::Error::custom("this format is not self-describing"))
    }

    fn deserialize_str<V: serde::de::Visitor<'de>>(self, v: V) -> Result<V::Value, ValueError> {
        v.visit_str(self.text)
    }

    fn deserialize_string<V: serde::de::Visitor<'de>>(self, v: V) -> Result<V::Value, ValueError> {
        v.visit_string(self.text.to_string())
    }

    fn is_human_readable(&self) -> bool {
        self.human
    }

    serde::forward_to_deserialize_any! {
        bool i8 i16 i32 i64 i128 u8 u16 u32 u64 u128 f32 f64 char bytes byte_buf option unit unit_struct newtype_struct seq tuple
        tuple_struct map struct enum identifier ignored_any
    }
}

#[derive(Debug)]
struct SerErr(String);

impl std::fmt::Display for SerErr {
    fn fmt(&self, f: &mut std::fmt::Formatter<'_>) -> std::fmt::Result {
        f.write_str(&self.0)
    }
}

impl std::error::Error for SerErr {}

impl serde::ser::Error for SerErr {
    fn custom<T: std::fmt::Display>(msg: T) -> Self {
        SerErr(msg.to_string())
    }
}

macro_rules! refuse {
    ($($name:ident($($arg:ty),*)),* $(,)?) => {
        $(fn $name(self $(, _: $arg)*) -> Result<Self::Ok, Self::Error> {
            Err(SerErr("not a string".into()))
        })*
    };
}

impl serde::Serializer for LimitedStringSerializer {
    type Error = SerErr;
    type Ok = String;
    type SerializeMap = serde::ser::Impossible<String, SerErr>;
    type SerializeSeq = serde::ser::Impossible<String, SerErr>;
    type SerializeStruct = serde::ser::Impossible<String, SerErr>;
    type SerializeStructVariant = serde::ser::Impossible<String, SerErr>;
    type SerializeTuple = serde::ser::Impossible<String, SerErr>;
    type SerializeTupleStruct = serde::ser::Impossible<String, SerErr>;
    type SerializeTupleVariant = serde::ser::Impossible<String, SerErr>;

    refuse!(
        serialize_bool(bool), serialize_i8(i8), serialize_i16(i16), serialize_i32(i32), serialize_i64(i64), serialize_u8(u8),
        serialize_u16(u16), serialize_u32(u32), serialize_u64(u64), serialize_f32(f32), serialize_f64(f64), serialize_char(char),
        serialize_bytes(&[u8]), serialize_none(), serialize_unit(), serialize_unit_struct(&'static str),
        serialize_unit_variant(&'static str, u32, &'static str),
    );

    fn is_human_readable(&self) -> bool {
        self.human
    }

    fn serialize_str(self, v: &str) -> Result<String, SerErr> {
        if v.len() > self.limit {
            Err(SerErr("too long".into()))
        } else {
            Ok(v.to_string())
        }
    }

    fn serialize_some<T: ?Sized + serde::Serialize>(self, _: &T) -> Result<String, SerErr> {
        Err(SerErr("not a string".into()))
    }

    fn serialize_newtype_struct<T: ?Sized + serde::Serialize>(self, _: &'static str, _: &T) -> Result<String, SerErr> {
        Err(SerErr("not a string".into()))
    }

    fn serialize_newtype_variant<T: ?Sized + serde::Serialize>(self, _: &'static str, _: u32, _: &'static str, _: &T) -> Result<String, SerErr> {
        Err(SerErr("not a string".into()))
    }

    fn serialize_seq(self, _: Option<usize>) -> Result<Self::SerializeSeq, SerErr> {
        Err(SerErr("not a string".into()))
    }

    fn serialize_tuple(self, _: usize) -> Result<Self::SerializeTuple, SerErr> {
        Err(SerErr("not a string".into()))
    }

    fn serialize_tuple_struct(self, _: &'static str, _: usize) -> Result<Self::SerializeTupleStruct, SerErr> {
        Err(SerErr("not a string".into()))
    }

    fn serialize_tuple_variant(self, _: &'static str, _: u32, _: &'static str, _: usize) -> Result<Self::SerializeTupleVariant, SerErr> {
        Err(SerErr("not a string".into()))
    }

    fn serialize_map(self, _: Option<usize>) -> Result<Self::SerializeMap, SerErr> {
        Err(SerErr("not a string".into()))
    }

    fn serialize_struct(self, _: &'static str, _: usize) -> Result<Self::SerializeStruct, SerErr> {
        Err(SerErr("not a string".into()))
    }

    fn serialize_struct_variant(self, _: &'static str, _: u32, _: &'static str, _: usize) -> Result<Self::SerializeStructVariant, SerErr> {
        Err(SerErr("not a string".into()))
    }
}

pub fn all(s: &str, st: &mut Stats) -> Result<(), String> {
    judge::<IStr>(s, st)?;
    judge::<ITyped>(s, st)
}

fn o_spelled(c: &SpelledCase, st: &mut Stats) -> Result<(), String> {
    all(&spell(&c.tuple, &c.choices).assemble(), st)
}

fn o_fault(c: &crate::fault::FaultCase, st: &mut Stats) -> Result<(), String> {
    match crate::fault::inject(c) {
        Some(f) => all(&f.text, st),
        None => Ok(()),
    }
}

fn o_string(s: &String, st: &mut Stats) -> Result<(), String> {
    all(s, st)
}

/// Two PURLs serialised (and deserialised) directly after one another on one thread: a generated
/// tuple and a near-collision of it (C19's mutations: one character changed, moved inside a field or
/// across a field boundary, a separator moved into a neighbouring field ...). Each must serialise as
/// its own canonical string whatever was serialised just before.
fn o_near_pair(c: &crate::props::c19::PairCase, st: &mut Stats) -> Result<(), String> {
    use crate::props::c03::build_fields;
    let a = crate::props::c19::fields_of(&c.tuple, false);
    let b = crate::props::c19::mutate(&a, &c.mutation);
    let (Some(pa), Some(pb)) = (build_fields::<IStr>(&a)?, build_fields::<IStr>(&b)?) else {
        st.class("pair-does-not-build");
        return Ok(());
    };
    let (ta, tb) = (text(&pa).map_err(|m| format!("to_string panicked: {m}"))?, text(&pb).map_err(|m| format!("to_string panicked: {m}"))?);
    for (first, second, want) in [(&pa, &pb, &tb), (&pb, &pa, &ta)] {
        let r = guard(|| {
            let one = serde_json::to_string(first);
            let two = serde_json::to_string(second);
            (one.is_ok(), two)
        })
        .map_err(|m| format!("serialising two PURLs after one another panicked: {m}"))?;
        match r.1 {
            Ok(js) if js == serde_json::to_string(want).unwrap() => {},
            other => {
                return Err(format!(
                    "serialised directly after {:?}, the PURL {want:?} comes out as {:?}",
                    if std::ptr::eq(first, &pa) { &ta } else { &tb },
                    other.map_err(|e| e.to_string())
                ))
            },
        }
        // and the way back: deserialising one text after the other
        let back = guard(|| {
            let _ = serde_json::from_str::<GenericPurl<String>>(&serde_json::to_string(if std::ptr::eq(first, &pa) { &ta } else { &tb }).unwrap());
            serde_json::from_str::<GenericPurl<String>>(&serde_json::to_string(want).unwrap())
        })
        .map_err(|m| format!("deserialising two PURLs after one another panicked: {m}"))?;
        // (the reference is what from_str makes of the same text: a builder-made value may keep
        // insignificant pieces that no parse gives back)
        let direct = parse::<IStr>(want).ok().and_then(|r| r.ok());
        match (back, direct) {
            (Ok(q), Some(d)) if q == d => {},
            (Err(_), None) => {},
            (other, d) => {
                return Err(format!(
                    "deserialised directly after a near-collision, {want:?} gives {:?}; from_str gives {:?}",
                    other.map(|q| observe(&q)).map_err(|e| e.to_string()),
                    d.map(|d| observe(&d))
                ))
            },
        }
    }
    st.class_if(ta != tb, "pair-with-different-strings");
    if ta != tb {
        st.nontrivial(&("near", ta.as_str(), tb.as_str()), || json!({ "first": ta, "second": tb }));
    }
    Ok(())
}

pub fn sections() -> Vec<Box<dyn Section>> {
    vec![
        Box::new(Random {
            name: "spelled".into(),
            quick: 120_000,
            thorough: 4_000_000,
            strategy: Box::new(|_| gspelled()),
            oracle: o_spelled,
            required: vec!["accepted-both-ways", "refused-both-ways"],
        }),
        Box::new(Random {
            name: "consecutive-serialisations-of-near-collisions".into(),
            quick: 60_000,
            thorough: 2_000_000,
            strategy: Box::new(|_| {
                (prop_oneof![crate::spell::gtuple(false), crate::spell::gtuple(true)], crate::props::c19::gmutation(), crate::spell::gchoices())
                    .prop_map(|(tuple, mutation, spelling)| crate::props::c19::PairCase { tuple, mutation, second: None, spelling })
                    .boxed()
            }),
            oracle: o_near_pair,
            required: vec!["pair-with-different-strings"],
        }),
        Box::new(Random {
            name: "faulted".into(),
            quick: 80_000,
            thorough: 2_500_000,
            strategy: Box::new(|_| gfault()),
            oracle: o_fault,
            required: vec!["refused-both-ways"],
        }),
        Box::new(Random {
            name: "soup".into(),
            quick: 100_000,
            thorough: 3_000_000,
            strategy: Box::new(|_| prop_oneof![gsoup(), gcorpus_mut(), crate::gens::gany_string()].boxed()),
            oracle: o_string,
            required: vec!["accepted-both-ways", "refused-both-ways"],
        }),
    ]
}

pub fn prop() -> Prop {
    Prop {
        id: "C16",
        sections,
        rule: "Strings of the C01/C02/C05 generators (legal spellings, single-fault spellings, soup, mutated conformance \
               strings, arbitrary strings), for GenericPurl<String> and Purl. Oracle: Deserialize (serde_json::from_str, \
               from_value, and serde's Str/String/BorrowedStr value deserializers) succeeds exactly when from_str does \
               and gives an equal PURL; Serialize gives exactly the JSON string of to_string() (to_value is \
               Value::String); the JSON round trip is the identity; null, booleans, numbers, arrays and objects containing \
               the string are refused. Non-trivial = a refused string, or an accepted one whose canonical form differs \
               from the input, needs percent escapes or JSON escaping; distinct by hash of (type parameter, string).",
        assumptions: &["JSON (serde_json) and serde's value deserializers are the only data formats available offline"],
        extra: None,
    }
}
