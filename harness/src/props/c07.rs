//! C07 - namespace and subpath structure cannot be forged or climb upwards.

use proptest::prelude::*;
use proptest::sample::select;
use serde::{Deserialize, Serialize};
use serde_json::json;

use crate::api::{observe, parse, ISmall, IStr, ITyped, ParseInst};
use crate::chars::gchar;
use crate::engine::{Enumerated, Random, Section, Stats, Tier};
use crate::gens::{gcorpus_mut, gsoup, strata, strata_make, strata_total};
use crate::model::{pct_decode, Obs};
use crate::props::c01::{gspelled, SpelledCase};
use crate::props::Prop;
use crate::spell::spell;

pub const PIECES: &[&str] = &["", ".", "..", "%2e", "%2E", ".%2e", "%2E%2e", "%2F", "a%2fb", "%5C", "a", "B c", "..."];

#[derive(Clone, Debug, Serialize, Deserialize)]
pub struct PieceCase {
    pub pieces: Vec<String>,
    /// 0 namespace, 1 subpath, 2 both, 3 both with the subpath repeating the whole package path and going on
    /// (`pkg:golang/a/b/n#a/b/n/a/b`, the way Go import paths are written)
    pub context: u8,
}

/// Invariants of every accepted string.
pub fn invariants(o: &Obs, s: &str) -> Result<(), String> {
    if let Some(ns) = &o.ns {
        if ns.is_empty() || ns.starts_with('/') || ns.ends_with('/') || ns.split('/').any(|p| p.is_empty()) {
            return Err(format!("{s:?}: namespace {ns:?} has an empty segment or a leading/trailing '/'"));
        }
    }
    if let Some(sp) = &o.subpath {
        if sp.is_empty() || sp.split('/').any(|p| p.is_empty() || p == "." || p == "..") {
            return Err(format!("{s:?}: subpath {sp:?} has an empty, '.' or '..' segment"));
        }
    }
    Ok(())
}

pub fn strings_for(c: &PieceCase, ty: &str) -> String {
    let joined = c.pieces.join("/");
    match c.context {
        0 => format!("pkg:{ty}/{joined}/n@1?k=v"),
        1 => format!("pkg:{ty}/n@1#{joined}"),
        2 => format!("pkg:{ty}/{joined}/n#{joined}"),
        _ => format!("pkg:{ty}/{joined}/n#{joined}/n/{joined}"),
    }
}

fn judge<I: ParseInst>(c: &PieceCase, ty: &str, st: &mut Stats) -> Result<(), String> {
    let s = strings_for(c, ty);
    let decoded: Vec<Option<String>> = c.pieces.iter().map(|p| pct_decode(p).ok()).collect();
    let clean = decoded.iter().all(|d| matches!(d, Some(d) if !d.contains('/')));
    let ns_expected: Vec<String> =
        c.pieces.iter().zip(&decoded).filter(|(p, _)| !p.is_empty()).map(|(_, d)| d.clone().unwrap_or_default()).collect();
    let mut sub_expected: Vec<String> = c
        .pieces
        .iter()
        .zip(&decoded)
        .filter(|(p, d)| {
            !matches!(p.as_str(), "" | "." | "..") && !matches!(d.as_deref(), Some(".") | Some(".."))
        })
        .map(|(_, d)| d.clone().unwrap_or_default())
        .collect();
    if c.context == 3 {
        let once = sub_expected.clone();
        sub_expected.push("n".to_string());
        sub_expected.extend(once);
    }
    let hidden_dot =
        c.pieces.iter().zip(&decoded).any(|(p, d)| !matches!(p.as_str(), "." | "..") && matches!(d.as_deref(), Some(".") | Some("..")));
    match parse::<I>(&s) {
        Err(_) => Ok(()), // C06's business
        Ok(Err(k)) => {
            // refusing is always structurally safe; demand acceptance only for clean lists with a
            // significant piece (a legal spelling under C02's freedoms)
            let must_accept = clean
                && match c.context {
                    0 => !ns_expected.is_empty(),
                    1 => !sub_expected.is_empty() && !hidden_dot,
                    _ => !ns_expected.is_empty() && !sub_expected.is_empty() && !hidden_dot,
                };
            // refusing a legal spelling is C02's business, not C07's: counted, not reported
            let _ = k;
            st.class_if(must_accept, "refused-although-only-extra-slashes-and-raw-dots (C02's business)");
            st.class("refused");
            Ok(())
        },
        Ok(Ok(p)) => {
            let o = observe(&p);
            invariants(&o, &s).map_err(|m| format!("[{}] {m}", I::NAME))?;
            if c.context != 1 {
                let got: Vec<String> = o.ns.as_deref().map(|n| n.split('/').map(str::to_string).collect()).unwrap_or_default();
                if got != ns_expected {
                    return Err(format!("[{}] {s:?}: namespace segments {got:?}, but the pieces between raw '/' decode to {ns_expected:?}", I::NAME));
                }
            }
            if c.context != 0 {
                let got: Vec<String> = o.subpath.as_deref().map(|n| n.split('/').map(str::to_string).collect()).unwrap_or_default();
                if got != sub_expected {
                    return Err(format!("[{}] {s:?}: subpath segments {got:?}, but the non-skipped pieces decode to {sub_expected:?}", I::NAME));
                }
            }
            st.class("accepted");
            st.class_if(hidden_dot && c.context == 0, "namespace-keeps-encoded-dot-segment");
            st.class_if(hidden_dot && c.context != 0, "accepted-with-encoded-dot-subpath-piece-skipped");
            let special = c.pieces.iter().any(|p| p.contains('%') || matches!(p.as_str(), "" | "." | ".."));
            if special {
                st.nontrivial(&(I::NAME, s.as_str()), || json!({ "inst": I::NAME, "string": s, "namespace": o.ns, "subpath": o.subpath }));
            }
            Ok(())
        },
    }
}

fn o_pieces(c: &PieceCase, st: &mut Stats) -> Result<(), String> {
    if c.context > 3 {
        return Err("bad replay case: context".into());
    }
    if c.pieces.iter().any(|p| p.contains(['/', '#', '?', '@']) ) {
        return Err("bad replay case: a piece contains a raw separator".into());
    }
    judge::<IStr>(c, "t", st)?;
    judge::<ISmall>(c, "t", st)?;
    judge::<ITyped>(c, "golang", st)
}

fn enum_case(max: u32, mut idx: u64) -> Option<PieceCase> {
    let k = PIECES.len() as u64;
    let per_ctx: u64 = (0..=max).map(|l| k.pow(l)).sum();
    let context = (idx / per_ctx) as u8;
    idx %= per_ctx;
    let mut len = 0u32;
    loop {
        let n = k.pow(len);
        if idx < n {
            break;
        }
        idx -= n;
        len += 1;
    }
    let mut pieces = Vec::new();
    for _ in 0..len {
        pieces.push(PIECES[(idx % k) as usize].to_string());
        idx /= k;
    }
    Some(PieceCase { pieces, context })
}

fn enum_total(max: u32) -> u64 {
    let k = PIECES.len() as u64;
    4 * (0..=max).map(|l| k.pow(l)).sum::<u64>()
}

/// A piece: generated text, each character raw or %XX (either hex case); raw separators are
/// always escaped.
fn gpiece() -> BoxedStrategy<String> {
    let unit = (gchar(), 0u8..4).prop_map(|(c, mode)| {
        let must = matches!(c, '/' | '#' | '?' | '@' | '%' | '&');
        if mode == 0 && !must {
            c.to_string()
        } else {
            let mut b = [0u8; 4];
            c.encode_utf8(&mut b)
                .bytes()
                .map(|x| if mode == 2 { format!("%{x:02x}") } else { format!("%{x:02X}") })
                .collect::<String>()
        }
    });
    prop_oneof![
        3 => select(PIECES).prop_map(str::to_string),
        1 => select(&["%2e%2E", "%2E.", "..%2e", "%2e%2e%2e", "%2f%2e%2e", "%2e%2f", "a%2F..", "%00", "%5c..", "%2E%2F%2e", "a%F0%80%80%AFb", "%C0%AF", "x%E0%80%AFy", "..%F0%80%80%AF..", "%F0%80%80%AE%F0%80%80%AE", "%C0%AE%C0%AE", "%E2%82x%AC"][..]).prop_map(str::to_string),
        4 => proptest::collection::vec(unit, 1..=4).prop_map(|v| v.concat()),
        // ordinary words with a dot in them, and long pieces (beyond 23 / 64 bytes), plain or with an
        // escape somewhere inside
        2 => select(&["v1.2", "main.rs", "lib.so.1", "docs", "etc", "passwd", "a.b.c", "x-y_z"][..]).prop_map(str::to_string),
        1 => (select(&[20usize, 24, 30, 62, 66, 70, 90][..]), select(&["", "%2F", "%2f", "%2e", ".", "%41", "%2E%2E", "é"][..]), 0usize..3).prop_map(|(n, mid, at)| {
            let fill = "a".repeat(n);
            match at {
                0 => format!("{mid}{fill}"),
                1 => format!("{}{mid}{}", &fill[..n / 2], &fill[n / 2..]),
                _ => format!("{fill}{mid}"),
            }
        }),
    ]
    .boxed()
}

pub fn gpieces() -> BoxedStrategy<PieceCase> {
    (prop_oneof![6 => proptest::collection::vec(gpiece(), 0..=6), 1 => proptest::collection::vec(gpiece(), 7..=14)], 0u8..4)
        .prop_map(|(pieces, context)| PieceCase { pieces, context })
        .boxed()
}

pub fn inv_all(s: &str, st: &mut Stats) -> Result<(), String> {
    fn one<I: ParseInst>(s: &str, st: &mut Stats) -> Result<(), String> {
        let Ok(Ok(p)) = parse::<I>(s) else { return Ok(()) };
        let o = observe(&p);
        invariants(&o, s).map_err(|m| format!("[{}] {m}", I::NAME))?;
        st.class("accepted");
        if o.ns.is_some() || o.subpath.is_some() {
            st.nontrivial(&(I::NAME, s), || json!({ "inst": I::NAME, "string": s, "namespace": o.ns, "subpath": o.subpath }));
        }
        Ok(())
    }
    one::<IStr>(s, st)?;
    one::<ISmall>(s, st)?;
    one::<ITyped>(s, st)
}

fn o_inv_string(s: &String, st: &mut Stats) -> Result<(), String> {
    inv_all(s, st)
}

fn o_inv_spelled(c: &SpelledCase, st: &mut Stats) -> Result<(), String> {
    inv_all(&spell(&c.tuple, &c.choices).assemble(), st)
}

fn o_hist(h: &crate::history::Hist<PieceCase>, st: &mut Stats) -> Result<(), String> {
    let text = strings_for(&h.inner, "t");
    crate::history::judge(h, &text, o_pieces, st)
}

fn o_session(s: &crate::history::Session<PieceCase>, st: &mut Stats) -> Result<(), String> {
    crate::history::judge_session(s, o_pieces, st)
}

pub fn sections() -> Vec<Box<dyn Section>> {
    vec![
        Box::new(Random {
            name: "sessions-of-piece-lists".into(),
            quick: 60,
            thorough: 2000,
            strategy: Box::new(|_| crate::history::gsession(gpieces())),
            oracle: o_session,
            required: vec!["judged inside a session", "session of 1000 or more cases"],
        }),
        Box::new(Random {
            name: "piece-lists-after-a-prelude".into(),
            quick: 16_000,
            thorough: 400_000,
            strategy: Box::new(|_| crate::history::ghist(gpieces())),
            oracle: o_hist,
            required: vec!["accepted", "refused"],
        }),
        Box::new(Enumerated {
            name: "piece-lists-exhaustive".into(),
            total: Box::new(|t: Tier| enum_total(t.pick(4, 6))),
            make: Box::new(|t: Tier, i| enum_case(t.pick(4, 6), i)),
            oracle: o_pieces,
            required: vec!["accepted", "refused"],
            complete: true,
        }),
        Box::new(Random {
            name: "piece-lists-random".into(),
            quick: 150_000,
            thorough: 5_000_000,
            strategy: Box::new(|_| gpieces()),
            oracle: o_pieces,
            required: vec!["accepted", "refused"],
        }),
        Box::new(Random {
            name: "invariants-on-spelled".into(),
            quick: 100_000,
            thorough: 3_000_000,
            strategy: Box::new(|_| gspelled()),
            oracle: o_inv_spelled,
            required: vec!["accepted"],
        }),
        Box::new(Random {
            name: "invariants-on-soup".into(),
            quick: 150_000,
            thorough: 4_000_000,
            strategy: Box::new(|_| prop_oneof![gsoup(), gcorpus_mut()].boxed()),
            oracle: o_inv_string,
            required: vec!["accepted"],
        }),
        Box::new(Enumerated {
            name: "invariants-on-token-language".into(),
            total: Box::new(|t: Tier| strata_total(&strata(t.pick(4, 5), t.pick(4, 5)))),
            make: Box::new(|t: Tier, i| strata_make(&strata(t.pick(4, 5), t.pick(4, 5)), i)),
            oracle: o_inv_string,
            required: vec!["accepted"],
            complete: true,
        }),
    ]
}

pub fn prop() -> Prop {
    Prop {
        id: "C07",
        sections,
        rule: "Lists of pieces joined with raw '/', placed as namespace, as subpath, as both, or as both with the subpath repeating namespace/name and going on (all lists up to 4 / 6 pieces over \
               13 piece kinds incl. '', '.', '..', %2e, %2E, .%2e, %2E%2e, %2F, a%2fb, %5C: complete; random pieces with \
               partial encodings beyond), for all three instantiations. Oracle: if accepted, namespace segments == \
               decoded non-empty pieces, subpath segments == decoded pieces other than raw ''/'.'/'..' and other than \
               pieces that decode to a dot segment (refusing those is equally fine); and for every accepted string of any generator the structural invariants (no \
               empty / '.' / '..' segment, no leading/trailing '/') hold. Non-trivial = accepted string whose piece list \
               has an encoded or insignificant piece (or, for the invariant sections, a namespace or subpath); distinct \
               by hash of (instantiation, string).",
        assumptions: &["a piece that decodes to '.' or '..' may be refused or skipped, never reported (DESIGN.md 6.4)"],
        extra: None,
    }
}
