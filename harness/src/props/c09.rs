//! C09 - the builder is faithful and serialisation loses nothing.

use proptest::prelude::*;
use serde::{Deserialize, Serialize};
use serde_json::json;

use crate::api::{observe, parse, IStr, ITyped, Inst, ParseInst};
use crate::buildprog::{check_outcome, expect, gprogram, run, Expect, Field, Op, Outcome, Program};
use crate::engine::{Enumerated, Random, Section, Stats, Tier};
use crate::model;
use crate::props::Prop;
use crate::spell::Chooser;

#[derive(Clone, Debug, Serialize, Deserialize)]
pub struct ProgCase {
    pub program: Program,
    pub typed: bool,
    /// choice stream for the order-preserving interleaving
    pub perm: Vec<u8>,
}

pub fn gcase(typed: bool) -> BoxedStrategy<ProgCase> {
    (gprogram(typed), proptest::collection::vec(any::<u8>(), 0..=12))
        .prop_map(move |(program, perm)| ProgCase { program, typed, perm })
        .boxed()
}

/// Another interleaving of the same ops that keeps the relative order of ops on the same field.
pub fn interleave(p: &Program, perm: &[u8]) -> Program {
    let fields = [Field::Namespace, Field::Name, Field::Version, Field::Subpath, Field::Type, Field::Qualifiers];
    let mut queues: Vec<std::collections::VecDeque<Op>> = fields
        .iter()
        .map(|f| p.ops.iter().filter(|o| o.field() == *f).cloned().collect())
        .collect();
    let mut ch = Chooser::new(perm);
    let mut ops = Vec::with_capacity(p.ops.len());
    loop {
        let live: Vec<usize> = (0..queues.len()).filter(|i| !queues[*i].is_empty()).collect();
        if live.is_empty() {
            break;
        }
        let q = live[ch.next(live.len())];
        ops.push(queues[q].pop_front().unwrap());
    }
    Program { ty: p.ty.clone(), name: p.name.clone(), ops }
}

fn interesting_text(s: &str) -> bool {
    s.chars().any(|c| matches!(c, '/' | '@' | '?' | '#' | '&' | '=' | '%' | '+' | ':' | ',') || c.is_control() || !c.is_ascii())
}

fn judge<I: Inst + ParseInst>(c: &ProgCase, st: &mut Stats) -> Result<(), String> {
    let (out, built) = run::<I>(&c.program);
    let exp = expect(&c.program, c.typed);
    check_outcome(&out, &exp).map_err(|m| format!("[{}] {m}", I::NAME))?;
    match &exp {
        Expect::Ok(_) => st.class("build-ok"),
        Expect::BuildErr(r) if r.len() == 1 => st.class("build-err-single-reason"),
        Expect::BuildErr(_) => st.class("build-err-several-reasons"),
        Expect::CallErr(..) => st.class("call-err"),
    }

    // metamorphic: order-preserving interleaving gives the same string or the same failure
    let other = interleave(&c.program, &c.perm);
    if other.ops != c.program.ops {
        st.class("interleaving-differs");
        let (out2, _) = run::<I>(&other);
        let same = match (&out, &out2) {
            (Outcome::Built(_, a), Outcome::Built(_, b)) => a == b,
            (Outcome::BuildErr(a), Outcome::BuildErr(b)) => a == b,
            (Outcome::CallErr(_, a), Outcome::CallErr(_, b)) => a == b,
            _ => false,
        };
        if !same {
            return Err(format!(
                "[{}] calls on different fields do not commute: {:?} gives {out:?} but the interleaving {:?} gives {out2:?}",
                I::NAME,
                c.program.ops,
                other.ops
            ));
        }
    }

    // round trip through the string form
    if let (Outcome::Built(o, t), Some(_)) = (&out, &built) {
        let q = match parse::<I>(t) {
            Err(m) => return Err(format!("[{}] parsing the string {t:?} of a built PURL panicked: {m}", I::NAME)),
            Ok(Err(k)) => return Err(format!("[{}] the built PURL prints {t:?}, which the parser refuses with {k}", I::NAME)),
            Ok(Ok(q)) => q,
        };
        let r = observe(&q);
        let same = r.ty == o.ty
            && r.name == o.name
            && r.version == o.version
            && r.quals == o.quals
            && model::opt_ns_segments(r.ns.as_deref()) == model::opt_ns_segments(o.ns.as_deref())
            && model::opt_sub_segments(r.subpath.as_deref()) == model::opt_sub_segments(o.subpath.as_deref());
        if !same {
            return Err(format!("[{}] the built PURL {o:?} prints {t:?}, which parses back as {r:?}", I::NAME));
        }
        let overrides = {
            let mut seen = Vec::new();
            let mut dup = false;
            for op in &c.program.ops {
                let f = op.field();
                if f != Field::Qualifiers && seen.contains(&f) {
                    dup = true;
                }
                seen.push(f);
            }
            dup
        };
        let special = interesting_text(&o.name)
            || o.ns.as_deref().map(interesting_text).unwrap_or(false)
            || o.version.as_deref().map(interesting_text).unwrap_or(false)
            || o.subpath.as_deref().map(interesting_text).unwrap_or(false)
            || o.quals.iter().any(|(_, v)| interesting_text(v));
        st.class_if(special, "built-with-special-characters");
        st.class_if(overrides, "built-with-overridden-field");
        st.class_if(o.quals.iter().any(|(_, v)| v.contains('&')), "built-with-&-in-qualifier-value");
        st.class_if(o.quals.iter().any(|(k, _)| k == "checksum"), "built-with-checksum");
        if special || overrides {
            st.nontrivial(&(I::NAME, &c.program), || json!({ "inst": I::NAME, "program": c.program, "string": t }));
        }
    }
    Ok(())
}

pub fn o_case(c: &ProgCase, st: &mut Stats) -> Result<(), String> {
    if c.typed {
        judge::<ITyped>(c, st)
    } else {
        judge::<IStr>(c, st)
    }
}

fn universe(typed: bool) -> Vec<Op> {
    let mut u = Vec::new();
    for v in ["", "a", "/"] {
        u.push(Op::Namespace(v.into()));
        u.push(Op::Version(v.into()));
        u.push(Op::Subpath(v.into()));
    }
    for v in if typed { ["", "A_b", "/"] } else { ["", "a", "/"] } {
        u.push(Op::Name(v.into()));
    }
    u.push(Op::NoNamespace);
    u.push(Op::NoVersion);
    u.push(Op::NoSubpath);
    for t in if typed { ["maven", "pypi", "npm"] } else { ["t", "T!", ""] } {
        u.push(Op::Type(t.into()));
    }
    for k in ["a", "A", "!"] {
        for v in ["", "x", "a&b"] {
            u.push(Op::Qualifier(k.into(), v.into()));
        }
    }
    u.push(Op::NoQualifier("a".into()));
    u.push(Op::NoQualifier("A".into()));
    u.push(Op::NoQualifiers);
    u
}

fn enum_total(max: u32) -> u64 {
    2 * (0..=max).map(|l| 30u64.pow(l)).sum::<u64>()
}

fn enum_case(max: u32, mut idx: u64) -> Option<ProgCase> {
    let per: u64 = (0..=max).map(|l| 30u64.pow(l)).sum();
    let typed = idx >= per;
    idx %= per;
    let u = universe(typed);
    debug_assert_eq!(u.len(), 30);
    let mut len = 0u32;
    loop {
        let n = 30u64.pow(len);
        if idx < n {
            break;
        }
        idx -= n;
        len += 1;
    }
    let mut ops = Vec::new();
    for _ in 0..len {
        ops.push(u[(idx % 30) as usize].clone());
        idx /= 30;
    }
    // the interleaving used for enumerated programs: reverse preference (last field first)
    Some(ProgCase {
        program: Program { ty: if typed { "golang".into() } else { "t".into() }, name: "n".into(), ops },
        typed,
        perm: vec![255, 255, 255, 255],
    })
}

/// A checksum text whose digest contains an arbitrary scalar value, given to the builder as a plain
/// qualifier (after other qualifiers, so that it is not the first thing `build()` looks at).
fn scalar_digest_case(idx: u64) -> Option<ProgCase> {
    let c = char::from_u32((idx / 2) as u32)?;
    if c == ',' {
        return None;
    }
    let value = if idx % 2 == 0 { format!("sha1:00{c}{c}") } else { format!("md5:0a,sha1:{c}0") };
    let ops = vec![
        crate::buildprog::Op::Qualifier("arch".into(), "x".into()),
        crate::buildprog::Op::Qualifier("Checksum".into(), value),
        crate::buildprog::Op::Version("1".into()),
    ];
    Some(ProgCase { program: Program { ty: "t".into(), name: "n".into(), ops }, typed: false, perm: vec![] })
}

pub fn sections() -> Vec<Box<dyn Section>> {
    vec![
        Box::new(Enumerated {
            name: "typed-names-over-length-changing-case-letters".into(),
            total: Box::new(|t: Tier| 2 * crate::props::c10::names_total(crate::chars::length_changing_alphabet(), t.pick(3, 4))),
            make: Box::new(|t: Tier, i| {
                let a = crate::chars::length_changing_alphabet();
                let n = crate::props::c10::names_total(a, t.pick(3, 4));
                let name = crate::props::c10::name_from_index(a, t.pick(3, 4), i % n);
                Some(ProgCase { program: Program { ty: ["pypi", "nuget"][(i / n) as usize].into(), name, ops: vec![] }, typed: true, perm: vec![] })
            }),
            oracle: o_case,
            required: vec![],
            complete: true,
        }),
        Box::new(Enumerated {
            name: "checksum-digest-with-every-scalar".into(),
            total: Box::new(|_| 2 * 0x110000u64),
            make: Box::new(|_, i| scalar_digest_case(i)),
            oracle: o_case,
            required: vec![],
            complete: true,
        }),
        Box::new(Enumerated {
            name: "programs-exhaustive".into(),
            total: Box::new(|t: Tier| enum_total(t.pick(3, 4))),
            make: Box::new(|t: Tier, i| enum_case(t.pick(3, 4), i)),
            oracle: o_case,
            required: vec!["build-ok", "build-err-single-reason", "call-err", "interleaving-differs", "built-with-&-in-qualifier-value"],
            complete: true,
        }),
        Box::new(Random {
            name: "programs-random-string".into(),
            quick: 250_000,
            thorough: 8_000_000,
            strategy: Box::new(|_| gcase(false)),
            oracle: o_case,
            required: vec![
                "build-ok",
                "build-err-single-reason",
                "build-err-several-reasons",
                "call-err",
                "interleaving-differs",
                "built-with-special-characters",
                "built-with-overridden-field",
                "built-with-&-in-qualifier-value",
                "built-with-checksum",
            ],
        }),
        Box::new(Random {
            name: "programs-random-package-type".into(),
            quick: 200_000,
            thorough: 7_000_000,
            strategy: Box::new(|_| gcase(true)),
            oracle: o_case,
            required: vec!["build-ok", "build-err-single-reason", "call-err", "interleaving-differs", "built-with-checksum"],
        }),
    ]
}

pub fn prop() -> Prop {
    Prop {
        id: "C09",
        sections,
        rule: "Builder programs: new(type, name) followed by up to 10 calls (with_/without_ namespace, name, version, \
               subpath, with_package_type, with_qualifier, without_qualifier(s), (try_)with_typed_qualifier, direct edits \
               of the public parts) with arbitrary text, for String and PackageType; all programs of up to 3 / 4 calls \
               over a 30-call universe are enumerated completely. Oracles: (model) build() outcome and accessors == the \
               M-builder state machine; (round trip) from_str(built.to_string()) is Ok with the same type, name, version, \
               qualifiers and M-segs-equal namespace/subpath; (metamorphic) an interleaving that keeps the order of calls \
               on the same field gives the same string or the same failure. Non-trivial = program that builds and has a \
               separator / '%' / control / non-ASCII character in some field or overrides a field; distinct by hash of \
               (type parameter, program).",
        assumptions: &[
            "namespace and subpath are compared after dropping insignificant segments, as the statement says",
            "when several reasons for failure apply, any of the applicable error variants is accepted",
            "a failing with_qualifier / try_with_typed_qualifier call ends the fluent chain: its error is the outcome",
        ],
        extra: None,
    }
}
