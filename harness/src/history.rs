//! History: results must not depend on what the library was asked before.
//!
//! A `Hist<C>` case is an ordinary case of a property plus a *prelude* of calls made on the same,
//! freshly started thread just before the case is judged by the property's own oracle. The prelude
//! is part of the case, the thread is new, so the verdict is a function of the case alone and a
//! replay reproduces it. Preludes are biased towards inputs *related* to the judged one (the same
//! text in another letter case or case folding, the same text poisoned by an invalid escape,
//! formatting into a sink that fails half-way), because state that leaks between calls is usually
//! keyed by the input.

use std::fmt::Write as _;

use proptest::prelude::*;
use serde::{Deserialize, Serialize};

use crate::api::{parse, ISmall, IStr, ITyped};
use crate::engine::{guard, Stats};

#[derive(Clone, Debug, Serialize, Deserialize, PartialEq, Eq, Hash)]
pub enum HistoryOp {
    /// parse this string with every instantiation, ignore the result
    Parse(String),
    /// parse a variant of the judged text (see `variant`)
    Variant(u8),
    /// format the PURL parsed from the judged text (or from a variant) into a sink that fails after `limit` bytes
    FormatBounded(u8, u16),
    /// a typed build of a name related to the judged text
    TypedName(u8, u8),
    /// the checksum of the judged text (or a stock one) with one entry spoilt, offered to every entry
    /// point that converts checksums: the parser, `Checksum::try_from`, the typed value's text
    /// conversion, the builder. All of them refuse - after having looked at the entries before it.
    ChecksumPoison(u8, u8),
    /// format a PURL whose user-written type reports an invalid type string: the documented panic,
    /// caught - after which the thread goes on being used, as a server would
    PanickingDisplay(u8),
}

#[derive(Clone, Debug, Serialize, Deserialize)]
pub struct Hist<C> {
    pub prelude: Vec<HistoryOp>,
    pub inner: C,
}

/// A sink that accepts `limit` bytes and then fails.
pub struct Bounded {
    pub left: usize,
}

impl std::fmt::Write for Bounded {
    fn write_str(&mut self, s: &str) -> std::fmt::Result {
        if s.len() > self.left {
            self.left = 0;
            Err(std::fmt::Error)
        } else {
            self.left -= s.len();
            Ok(())
        }
    }
}

fn fold_like(s: &str, mode: u8) -> String {
    match mode % 8 {
        0 => s.to_string(),
        1 => s.to_ascii_uppercase(),
        2 => s.to_ascii_lowercase(),
        3 => s.to_uppercase(),
        4 => s.to_lowercase(),
        5 => s.replace('ß', "ss").replace('ς', "σ").replace('ſ', "s").replace('\u{212A}', "k").replace('µ', "μ"),
        6 => s.replace("ss", "ß").replace('σ', "ς").replace('s', "ſ").replace('k', "\u{212A}"),
        _ => s.chars().flat_map(|c| c.to_uppercase()).flat_map(|c| c.to_lowercase()).collect(),
    }
}

/// A text related to `s`: the part after `pkg:type/` in another case / folding, the whole text
/// poisoned with an invalid escape, namespace and subpath swapped, the text doubled.
pub fn variant(s: &str, k: u8) -> String {
    let (head, tail) = match s.strip_prefix("pkg:").and_then(|r| r.find('/').map(|i| s.split_at(4 + i + 1))) {
        Some((h, t)) => (h.to_string(), t.to_string()),
        None => (String::new(), s.to_string()),
    };
    match k % 14 {
        0..=7 => format!("{head}{}", fold_like(&tail, k)),
        8 => format!("{s}%80"),
        9 => format!("{head}%C3{tail}"),
        10 => {
            // what stands as namespace + name becomes the subpath and vice versa
            match tail.split_once('#') {
                Some((path, sub)) => format!("{head}{sub}#{path}"),
                None => format!("{head}n#{tail}"),
            }
        },
        11 => format!("{head}pypi-{}", fold_like(&tail, 3)),
        12 => format!("pkg:pypi/{}", fold_like(&tail, k / 14)),
        _ => format!("pkg:nuget/{}", fold_like(&tail, k / 14)),
    }
}

/// The entries of the `checksum` qualifier written in `text` (percent-decoded), or a stock list.
fn checksum_entries(text: &str) -> Vec<(String, String)> {
    let lower = text.to_ascii_lowercase();
    let value = lower.find("checksum=").map(|i| {
        let v = &text[i + "checksum=".len()..];
        v.split(['&', '#']).next().unwrap_or("").to_string()
    });
    let decoded = value.and_then(|v| crate::model::pct_decode(&v).ok()).unwrap_or_default();
    let mut out: Vec<(String, String)> =
        decoded.split(',').filter_map(|e| e.rsplit_once(':').map(|(a, d)| (a.to_string(), d.to_string()))).collect();
    if out.is_empty() {
        out = vec![("md5".into(), "0a".into()), ("sha1".into(), "00ff".into()), ("sha256".into(), "1234".into())];
    }
    out
}

fn poison(mut entries: Vec<(String, String)>, at: u8, how: u8) -> Vec<String> {
    let n = entries.len();
    // sorted the way the canonical text is, so that `at` is a position in the output
    entries.sort_by_key(|(a, _)| crate::model::lower(a));
    let i = match at % 4 {
        0 => n - 1,
        1 => 0,
        2 => n / 2,
        _ => (at as usize / 4) % n,
    };
    let mut out: Vec<String> = entries.iter().map(|(a, d)| format!("{a}:{d}")).collect();
    let (a, d) = entries[i].clone();
    match how % 6 {
        0 => out[i] = format!("{a}:{d}zz"),
        1 => out[i] = format!("{a}:{d}0"),
        2 => out[i] = format!("{a}{d}").replace(':', ""),
        3 => out.push(format!("{}:00", fold_like(&entries[0].0, 1))),
        4 => out[i] = format!("{a}:not-hex"),
        _ => out[i] = format!("{a}:{}", "é".repeat(1 + d.len() / 2)),
    }
    out
}

fn run_checksum_poison(judged: &str, at: u8, how: u8) {
    use purl::qualifiers::well_known::Checksum;
    let entries = checksum_entries(judged);
    let bad = poison(entries, at, how);
    let value = bad.join(",");
    let _ = guard(|| Checksum::try_from(value.as_str()).map(|c| c.algorithms().count()));
    let _ = guard(|| {
        let mut c = Checksum::default();
        for e in &bad {
            let (a, d) = e.rsplit_once(':').unwrap_or((e.as_str(), ""));
            c.insert_raw(a, d.to_string());
        }
        crate::api::SmallString::try_from(c).map(|t| t.len())
    });
    let escaped: String = value
        .bytes()
        .map(|b| if b.is_ascii_alphanumeric() || b == b':' || b == b',' || b == b'-' { (b as char).to_string() } else { format!("%{b:02X}") })
        .collect();
    parse_all(&format!("pkg:generic/n?checksum={escaped}"));
    parse_all(&format!("pkg:npm/n@1?Checksum={escaped}&k=v#s"));
    let _ = guard(|| {
        purl::GenericPurlBuilder::new("t".to_string(), "n").with_qualifier("checksum", value.as_str()).map(|b| b.build().map(|p| p.to_string()))
    });
}

struct BadType(&'static str);

impl purl::PurlShape for BadType {
    type Error = purl::ParseError;

    fn package_type(&self) -> std::borrow::Cow<'_, str> {
        std::borrow::Cow::Borrowed(self.0)
    }

    fn finish(&mut self, _parts: &mut purl::PurlParts) -> Result<(), Self::Error> {
        Ok(())
    }
}

fn run_panicking_display(judged: &str, k: u8) {
    let bad = ["not a type", "", "a/b", "t%41", "é"][k as usize % 5];
    let name = judged.rsplit('/').next().unwrap_or("n").split(['@', '?', '#']).next().unwrap_or("n");
    let name = if name.is_empty() { "n" } else { name };
    let _ = guard(|| {
        let p = purl::GenericPurlBuilder::new(BadType(bad), name).with_namespace("g").with_version("1").build();
        p.map(|p| {
            let mut sink = Bounded { left: 1 << 20 };
            let _ = write!(sink, "{p}");
            p.to_string()
        })
    });
}

fn parse_all(s: &str) {
    let _ = parse::<IStr>(s);
    let _ = parse::<ISmall>(s);
    let _ = parse::<ITyped>(s);
}

pub fn run_prelude(ops: &[HistoryOp], judged: &str) {
    for op in ops {
        match op {
            HistoryOp::Parse(s) => parse_all(s),
            HistoryOp::Variant(k) => parse_all(&variant(judged, *k)),
            HistoryOp::FormatBounded(k, limit) => {
                let text = variant(judged, *k);
                if let Ok(Ok(p)) = parse::<IStr>(&text) {
                    let _ = guard(|| {
                        let mut sink = Bounded { left: *limit as usize };
                        let _ = write!(sink, "{p}");
                    });
                }
                if let Ok(Ok(p)) = parse::<ITyped>(&text) {
                    let _ = guard(|| {
                        let mut sink = Bounded { left: *limit as usize };
                        let _ = write!(sink, "{p}");
                    });
                }
            },
            HistoryOp::ChecksumPoison(at, how) => run_checksum_poison(judged, *at, *how),
            HistoryOp::PanickingDisplay(k) => run_panicking_display(judged, *k),
            HistoryOp::TypedName(ty, k) => {
                let name = judged.rsplit('/').next().unwrap_or(judged);
                let name = name.split(['@', '?', '#']).next().unwrap_or(name);
                let name = crate::model::pct_decode(name).unwrap_or_else(|_| name.to_string());
                let t = [purl::PackageType::PyPI, purl::PackageType::NuGet, purl::PackageType::Npm][*ty as usize % 3];
                let n = fold_like(&name, *k);
                let _ = guard(|| purl::Purl::builder(t, n.as_str()).with_namespace("g").build().map(|p| p.to_string()));
            },
        }
    }
}

pub fn gprelude() -> BoxedStrategy<Vec<HistoryOp>> {
    let op = prop_oneof![
        2 => crate::gens::gsoup().prop_map(HistoryOp::Parse),
        1 => crate::props::c01::gfault().prop_map(|f| HistoryOp::Parse(crate::fault::inject(&f).map(|x| x.text).unwrap_or_default())),
        6 => any::<u8>().prop_map(HistoryOp::Variant),
        2 => (any::<u8>(), prop_oneof![0u16..40, 0u16..400]).prop_map(|(k, l)| HistoryOp::FormatBounded(k, l)),
        2 => (any::<u8>(), any::<u8>()).prop_map(|(t, k)| HistoryOp::TypedName(t, k)),
        2 => (any::<u8>(), any::<u8>()).prop_map(|(a, h)| HistoryOp::ChecksumPoison(a, h)),
        1 => any::<u8>().prop_map(HistoryOp::PanickingDisplay),
    ];
    proptest::collection::vec(op, 1..=4).boxed()
}

pub fn ghist<C: std::fmt::Debug + Clone + 'static>(inner: BoxedStrategy<C>) -> BoxedStrategy<Hist<C>> {
    (gprelude(), inner).prop_map(|(prelude, inner)| Hist { prelude, inner }).boxed()
}

/// A *session*: hundreds to thousands of cases of one property judged one after the other on one
/// freshly started thread, with unrelated parser calls (`noise`) in between. Every call is judged,
/// so whatever the library accumulates on a thread - a counter, a cache that fills up and evicts, a
/// buffer that grows - is met at every fill level, and the session (a value like any other case)
/// reproduces and shrinks.
#[derive(Clone, Debug, Serialize, Deserialize)]
pub struct Session<C> {
    pub cases: Vec<C>,
    pub noise: Vec<String>,
}

pub fn gsession<C: std::fmt::Debug + Clone + 'static>(inner: BoxedStrategy<C>) -> BoxedStrategy<Session<C>> {
    let cases = prop_oneof![
        4 => proptest::collection::vec(inner.clone(), 50..400),
        1 => proptest::collection::vec(inner, 1_000..2_500),
    ];
    (cases, proptest::collection::vec(crate::gens::gsoup(), 0..=6)).prop_map(|(cases, noise)| Session { cases, noise }).boxed()
}

pub fn judge_session<C: Sync>(s: &Session<C>, oracle: fn(&C, &mut Stats) -> Result<(), String>, st: &mut Stats) -> Result<(), String> {
    let mut spawn_failed = false;
    let n = s.cases.len();
    let r = std::thread::scope(|scope| {
        let handle = std::thread::Builder::new().stack_size(2 << 20).spawn_scoped(scope, || {
            for (i, c) in s.cases.iter().enumerate() {
                if !s.noise.is_empty() {
                    parse_all(&s.noise[i % s.noise.len()]);
                }
                oracle(c, st).map_err(|m| format!("case {i} of a session of {n} cases on one thread: {m}"))?;
                st.class("judged inside a session");
            }
            Ok(())
        });
        match handle {
            Ok(handle) => handle.join().map_err(|_| ()),
            Err(_) => {
                spawn_failed = true;
                Err(())
            },
        }
    });
    if spawn_failed {
        return Ok(());
    }
    match r {
        Ok(r) => {
            if r.is_ok() {
                st.class_if(n >= 1_000, "session of 1000 or more cases");
            }
            r
        },
        Err(()) => Err(format!("the oracle thread panicked in a session of {n} cases")),
    }
}

/// Run the prelude and then the property's oracle on a thread of its own.
pub fn judge<C: Sync>(h: &Hist<C>, judged_text: &str, oracle: fn(&C, &mut Stats) -> Result<(), String>, st: &mut Stats) -> Result<(), String> {
    let mut spawn_failed = false;
    let r = std::thread::scope(|scope| {
        let handle = std::thread::Builder::new().stack_size(512 << 10).spawn_scoped(scope, || {
            run_prelude(&h.prelude, judged_text);
            oracle(&h.inner, st)
        });
        match handle {
            Ok(handle) => handle.join().map_err(|_| ()),
            Err(_) => {
                spawn_failed = true;
                Err(())
            },
        }
    });
    if spawn_failed {
        // the operating system refused a new thread: nothing was judged (never a violation)
        return Ok(());
    }
    match r {
        Ok(r) => r.map_err(|m| format!("after the prelude {:?}: {m}", h.prelude)),
        Err(()) => Err(format!("the oracle thread panicked after the prelude {:?}", h.prelude)),
    }
}
