//! History: results must not depend on what the library was asked before.
//!
//! A `Hist<C>` case is an ordinary case of a property plus a *prelude* of calls made on the same,
//! freshly started thread just before the case is judged by the property's own oracle. The prelude
//! is part of the case, the thread is new, so the verdict is a function of the case alone and a
//! replay reproduces it. Preludes are biased towards inputs *related* to the judged one (the same
//! text in another letter case or case folding, the same text poisoned by an invalid escape,
//! formatting into a sink that fails half-way), because state that leaks between calls is usually
//! keyed by the input.

use std::fmt::Write as _;

use proptest::prelude::*;
use serde::{Deserialize, Serialize};

use crate::api::{parse, ISmall, IStr, ITyped};
use crate::engine::{guard, Stats};

#[derive(Clone, Debug, Serialize, Deserialize, PartialEq, Eq, Hash)]
pub enum HistoryOp {
    /// parse this string with every instantiation, ignore the result
    Parse(String),
    /// parse a variant of the judged text (see `variant`)
    Variant(u8),
    /// format the PURL parsed from the judged text (or from a variant) into a sink that fails after `limit` bytes
    FormatBounded(u8, u16),
    /// a typed build of a name related to the judged text
    TypedName(u8, u8),
}

#[derive(Clone, Debug, Serialize, Deserialize)]
pub struct Hist<C> {
    pub prelude: Vec<HistoryOp>,
    pub inner: C,
}

/// A sink that accepts `limit` bytes and then fails.
pub struct Bounded {
    pub left: usize,
}

impl std::fmt::Write for Bounded {
    fn write_str(&mut self, s: &str) -> std::fmt::Result {
        if s.len() > self.left {
            self.left = 0;
            Err(std::fmt::Error)
        } else {
            self.left -= s.len();
            Ok(())
        }
    }
}

fn fold_like(s: &str, mode: u8) -> String {
    match mode % 8 {
        0 => s.to_string(),
        1 => s.to_ascii_uppercase(),
        2 => s.to_ascii_lowercase(),
        3 => s.to_uppercase(),
        4 => s.to_lowercase(),
        5 => s.replace('ß', "ss").replace('ς', "σ").replace('ſ', "s").replace('\u{212A}', "k").replace('µ', "μ"),
        6 => s.replace("ss", "ß").replace('σ', "ς").replace('s', "ſ").replace('k', "\u{212A}"),
        _ => s.chars().flat_map(|c| c.to_uppercase()).flat_map(|c| c.to_lowercase()).collect(),
    }
}

/// A text related to `s`: the part after `pkg:type/` in another case / folding, the whole text
/// poisoned with an invalid escape, namespace and subpath swapped, the text doubled.
pub fn variant(s: &str, k: u8) -> String {
    let (head, tail) = match s.strip_prefix("pkg:").and_then(|r| r.find('/').map(|i| s.split_at(4 + i + 1))) {
        Some((h, t)) => (h.to_string(), t.to_string()),
        None => (String::new(), s.to_string()),
    };
    match k % 14 {
        0..=7 => format!("{head}{}", fold_like(&tail, k)),
        8 => format!("{s}%80"),
        9 => format!("{head}%C3{tail}"),
        10 => {
            // what stands as namespace + name becomes the subpath and vice versa
            match tail.split_once('#') {
                Some((path, sub)) => format!("{head}{sub}#{path}"),
                None => format!("{head}n#{tail}"),
            }
        },
        11 => format!("{head}pypi-{}", fold_like(&tail, 3)),
        12 => format!("pkg:pypi/{}", fold_like(&tail, k / 14)),
        _ => format!("pkg:nuget/{}", fold_like(&tail, k / 14)),
    }
}

fn parse_all(s: &str) {
    let _ = parse::<IStr>(s);
    let _ = parse::<ISmall>(s);
    let _ = parse::<ITyped>(s);
}

pub fn run_prelude(ops: &[HistoryOp], judged: &str) {
    for op in ops {
        match op {
            HistoryOp::Parse(s) => parse_all(s),
            HistoryOp::Variant(k) => parse_all(&variant(judged, *k)),
            HistoryOp::FormatBounded(k, limit) => {
                let text = variant(judged, *k);
                if let Ok(Ok(p)) = parse::<IStr>(&text) {
                    let _ = guard(|| {
                        let mut sink = Bounded { left: *limit as usize };
                        let _ = write!(sink, "{p}");
                    });
                }
                if let Ok(Ok(p)) = parse::<ITyped>(&text) {
                    let _ = guard(|| {
                        let mut sink = Bounded { left: *limit as usize };
                        let _ = write!(sink, "{p}");
                    });
                }
            },
            HistoryOp::TypedName(ty, k) => {
                let name = judged.rsplit('/').next().unwrap_or(judged);
                let name = name.split(['@', '?', '#']).next().unwrap_or(name);
                let name = crate::model::pct_decode(name).unwrap_or_else(|_| name.to_string());
                let t = [purl::PackageType::PyPI, purl::PackageType::NuGet, purl::PackageType::Npm][*ty as usize % 3];
                let n = fold_like(&name, *k);
                let _ = guard(|| purl::Purl::builder(t, n.as_str()).with_namespace("g").build().map(|p| p.to_string()));
            },
        }
    }
}

pub fn gprelude() -> BoxedStrategy<Vec<HistoryOp>> {
    let op = prop_oneof![
        2 => crate::gens::gsoup().prop_map(HistoryOp::Parse),
        1 => crate::props::c01::gfault().prop_map(|f| HistoryOp::Parse(crate::fault::inject(&f).map(|x| x.text).unwrap_or_default())),
        6 => any::<u8>().prop_map(HistoryOp::Variant),
        2 => (any::<u8>(), prop_oneof![0u16..40, 0u16..400]).prop_map(|(k, l)| HistoryOp::FormatBounded(k, l)),
        2 => (any::<u8>(), any::<u8>()).prop_map(|(t, k)| HistoryOp::TypedName(t, k)),
    ];
    proptest::collection::vec(op, 1..=4).boxed()
}

pub fn ghist<C: std::fmt::Debug + Clone + 'static>(inner: BoxedStrategy<C>) -> BoxedStrategy<Hist<C>> {
    (gprelude(), inner).prop_map(|(prelude, inner)| Hist { prelude, inner }).boxed()
}

/// Run the prelude and then the property's oracle on a thread of its own.
pub fn judge<C: Sync>(h: &Hist<C>, judged_text: &str, oracle: fn(&C, &mut Stats) -> Result<(), String>, st: &mut Stats) -> Result<(), String> {
    let mut spawn_failed = false;
    let r = std::thread::scope(|scope| {
        let handle = std::thread::Builder::new().stack_size(512 << 10).spawn_scoped(scope, || {
            run_prelude(&h.prelude, judged_text);
            oracle(&h.inner, st)
        });
        match handle {
            Ok(handle) => handle.join().map_err(|_| ()),
            Err(_) => {
                spawn_failed = true;
                Err(())
            },
        }
    });
    if spawn_failed {
        // the operating system refused a new thread: nothing was judged (never a violation)
        return Ok(());
    }
    match r {
        Ok(r) => r.map_err(|m| format!("after the prelude {:?}: {m}", h.prelude)),
        Err(()) => Err(format!("the oracle thread panicked after the prelude {:?}", h.prelude)),
    }
}
