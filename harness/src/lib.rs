pub mod api;
pub mod chars;
pub mod engine;
pub mod fault;
pub mod gens;
pub mod model;
pub mod props;
pub mod spell;
