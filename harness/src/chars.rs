//! G-char / G-text: characters by class with fixed weights.

use proptest::prelude::*;
use proptest::sample::select;

/// Every PURL separator and every byte mentioned in an escape set, plus other ASCII punctuation.
pub const PUNCT: &[char] = &[
    '/', '@', '?', '#', '=', '&', ':', ',', '.', '%', '+', '"', '<', '>', '{', '}', '|', '\\', '^', '[', ']', '~', '\'',
    '!', '$', '(', ')', '*', ';', ' ', '`', '-', '_',
];

pub const SEPARATORS: &[char] = &['/', '@', '?', '#', '=', '&', ':', ',', '%', '+', '.'];

pub const CONTROLS: &[char] = &['\u{0}', '\u{1}', '\t', '\n', '\r', '\u{1b}', '\u{1f}', '\u{7f}'];

/// Boundary code points of each UTF-8 length.
pub const BOUNDARY: &[char] = &[
    '\u{80}', '\u{7ff}', '\u{800}', '\u{ffff}', '\u{10000}', '\u{10ffff}', '\u{d7ff}', '\u{e000}', '\u{fffd}', '\u{a0}',
];

/// Case-interesting letters: upper-case non-ASCII, expanding lower-casing, titlecase, look-alikes.
pub const CASEY: &[char] = &[
    'Æ', 'é', 'É', 'İ', 'ß', 'ſ', '\u{212A}', 'ǅ', 'ǈ', 'ǋ', 'ǲ', 'ᾈ', 'ᾘ', 'ᾼ', 'ῼ', 'Σ', 'σ', 'ς', '𝐀', 'ǆ', 'Ǆ', 'ı',
    'Ω', '\u{2126}', 'Å', '\u{212B}', 'Ａ', 'ａ', '\u{0307}',
];

/// The 31 titlecase letters (changed by to_lowercase, not is_uppercase).
pub const TITLECASE: &[char] = &[
    '\u{01C5}', '\u{01C8}', '\u{01CB}', '\u{01F2}', '\u{1F88}', '\u{1F89}', '\u{1F8A}', '\u{1F8B}', '\u{1F8C}',
    '\u{1F8D}', '\u{1F8E}', '\u{1F8F}', '\u{1F98}', '\u{1F99}', '\u{1F9A}', '\u{1F9B}', '\u{1F9C}', '\u{1F9D}',
    '\u{1F9E}', '\u{1F9F}', '\u{1FA8}', '\u{1FA9}', '\u{1FAA}', '\u{1FAB}', '\u{1FAC}', '\u{1FAD}', '\u{1FAE}',
    '\u{1FAF}', '\u{1FBC}', '\u{1FCC}', '\u{1FFC}',
];

pub const ALNUM: &[char] = &[
    'a', 'b', 'c', 'd', 'e', 'f', 'k', 'n', 'x', 'z', 'A', 'B', 'C', 'D', 'E', 'F', 'K', 'Z', '0', '1', '2', '9',
];

pub fn gchar() -> BoxedStrategy<char> {
    prop_oneof![
        30 => select(ALNUM),
        25 => select(PUNCT),
        10 => select(SEPARATORS),
        5 => select(CONTROLS),
        5 => select(BOUNDARY),
        8 => select(CASEY),
        3 => select(TITLECASE),
        6 => any::<char>(),
        3 => (0x20u8..0x7f).prop_map(|b| b as char),
    ]
    .boxed()
}

/// Mostly short strings (0..=8 chars), occasionally longer.
/// A string literal of the source tree under test (see `dict`).
pub fn gliteral() -> BoxedStrategy<String> {
    let n = crate::dict::dict().strings.len();
    (0..n).prop_map(|i| crate::dict::dict().strings[i].clone()).boxed()
}

/// A size at or next to a number that occurs in the source tree under test, at most `max`.
pub fn gsize(max: usize) -> BoxedStrategy<usize> {
    let v = crate::dict::sizes(max);
    (0..v.len()).prop_map(move |i| v[i]).boxed()
}

pub fn gtext(min: usize) -> BoxedStrategy<String> {
    prop_oneof![
        40 => proptest::collection::vec(gchar(), min..=8),
        4 => proptest::collection::vec(gchar(), min.max(9)..=40),
        // lengths around the inline capacity of the small-string type (23 bytes) and around powers of two,
        // mostly ASCII so that the byte length is the character count
        2 => (
            prop_oneof![
                4 => select(&[22usize, 23, 24, 25, 31, 32, 33, 63, 64, 65, 66, 80][..]),
                1 => select(&[127usize, 128, 129, 130, 200, 255, 256, 257, 300][..]),
            ],
            gchar(),
            prop_oneof![3 => select(ALNUM), 1 => select(CASEY), 1 => select(&['.', '-', '_', '/', ' '][..])],
            0usize..3,
        )
            .prop_map(|(n, odd, fill, at)| {
                // one odd character at the start, in the middle or at the end of a long run
                let mut v: Vec<char> = std::iter::repeat(fill).take(n).collect();
                let pos = match at {
                    0 => 0,
                    1 => n / 2,
                    _ => n - 1,
                };
                v[pos] = odd;
                v
            }),
        // a literal of the source under test, alone or glued to an ordinary character
        3 => (gliteral(), select(&["", "", "a", "A", "1", "/", "-"][..]), any::<bool>()).prop_map(move |(l, glue, front)| {
            let s = if front { format!("{glue}{l}") } else { format!("{l}{glue}") };
            let mut v: Vec<char> = s.chars().collect();
            while v.len() < min {
                v.push('a');
            }
            v
        }),
        // a run whose length is at or next to a number of the source under test
        1 => (gsize(600), prop_oneof![3 => select(ALNUM), 1 => select(CASEY)], gchar()).prop_map(|(n, fill, odd)| {
            let mut v: Vec<char> = std::iter::repeat(fill).take(n).collect();
            let k = v.len();
            v[k / 2] = odd;
            v
        }),
        // long runs of decimal digits (values around and beyond u64 / u128)
        1 => (18usize..=42, select(&['0', '1', '9'][..]), select(&['0', '5', '6', '9'][..])).prop_map(|(n, fill, last)| {
            let mut v: Vec<char> = std::iter::repeat(fill).take(n).collect();
            v[n - 1] = last;
            v
        }),
        // version-like text: runs of digits (leading zeros included) separated by dots, with an optional suffix
        2 => (proptest::collection::vec(select(&["0", "1", "01", "10", "001", "2", "9", "00", "1000"][..]), 1..=4), select(&["", "", "-rc1", "+b", "a"][..]))
            .prop_map(|(runs, suffix)| format!("{}{suffix}", runs.join(".")).chars().collect::<Vec<char>>()),
        // ordinary words with a dot, a dash or a digit (file names, versions)
        1 => select(&["v1.2", "main.rs", "lib.so.1", "1.0.0-rc.1+build", "node_modules", "a.b", "x-y", "README.md"][..]).prop_map(|s| s.chars().collect::<Vec<char>>()),
    ]
    .prop_map(|v| v.into_iter().collect::<String>())
    .boxed()
}

/// Non-empty text.
pub fn gtext1() -> BoxedStrategy<String> {
    gtext(1)
}

/// Text without a given set of characters (constructive: offending characters are replaced).
pub fn gtext_without(min: usize, banned: &'static [char], replacement: char) -> BoxedStrategy<String> {
    gtext(min).prop_map(move |s| s.chars().map(|c| if banned.contains(&c) { replacement } else { c }).collect()).boxed()
}

/// A syntactically valid package type: `[A-Za-z][A-Za-z0-9.+-]*`.
pub fn gtype() -> BoxedStrategy<String> {
    const FIRST: &[char] = &['a', 't', 'n', 'p', 'z', 'A', 'T', 'N', 'Z', 'G'];
    const REST: &[char] = &['a', 'e', 'm', 'z', 'A', 'M', 'Z', '0', '7', '9', '.', '+', '-'];
    // mostly short, sometimes 8-24 characters (several machine words)
    (select(FIRST), prop_oneof![5 => proptest::collection::vec(select(REST), 0..=6), 1 => proptest::collection::vec(select(REST), 7..=23)])
        .prop_map(|(f, r)| std::iter::once(f).chain(r).collect::<String>())
        .boxed()
}

pub const KNOWN_TYPES: &[&str] = &["cargo", "gem", "golang", "maven", "npm", "nuget", "pypi"];

/// A valid qualifier key `[A-Za-z][A-Za-z0-9._-]*` (never `checksum` in any case).
pub fn gkey() -> BoxedStrategy<String> {
    const FIRST: &[char] = &['a', 'b', 'k', 'r', 'z', 'A', 'B', 'K', 'Z'];
    const REST: &[char] = &['a', 'k', 'z', 'A', 'K', 'Z', '0', '5', '9', '.', '_', '-'];
    let short = (select(FIRST), proptest::collection::vec(select(REST), 0..=5)).prop_map(|(f, r)| std::iter::once(f).chain(r).collect::<String>());
    // long keys: a short head, a long run of one letter, a short tail - lengths around 23 and 64, so
    // that two long keys of one collection usually share a long prefix
    let long = (select(FIRST), select(&['a', 'A'][..]), select(&[21usize, 22, 23, 24, 62, 63, 64, 65][..]), proptest::collection::vec(select(REST), 1..=2))
        .prop_map(|(f, fill, n, tail)| std::iter::once(f).chain(std::iter::repeat(fill).take(n)).chain(tail).collect::<String>());
    // valid keys among the literals of the source under test (well-known qualifier names)
    // ... alone, or extended by a suffix, in some letter case (a key of which a well-known key is a prefix)
    let from_source = (gliteral(), select(&["", "", "_context", "_mirror", "X", "2", "_", "s"][..]), 0u8..3).prop_map(|(l, suffix, case)| {
        if is_valid_key(&l) && l.as_bytes()[0].is_ascii_alphabetic() {
            let k = format!("{l}{suffix}");
            match case {
                0 => k,
                1 => k.to_ascii_uppercase(),
                _ => {
                    let mut c = k.chars();
                    match c.next() {
                        Some(f) => f.to_ascii_uppercase().to_string() + c.as_str(),
                        None => k,
                    }
                },
            }
        } else {
            "k".to_string()
        }
    });
    prop_oneof![12 => short, 1 => long, 2 => from_source]
        .prop_map(|s| {
            if s.eq_ignore_ascii_case("checksum") {
                "checksun".to_string()
            } else {
                s
            }
        })
        .boxed()
}

#[allow(dead_code)]
fn _unused() {}

/// The letters whose lower-casing changes their UTF-8 length (computed from std's own tables: about
/// 25 of them - dotted capital I, U+023A, U+023E, sharp S, Ohm, Kelvin, Angstrom, ...), plus an ASCII
/// lower-case letter, an ASCII capital, a separator and a two-byte letter that changes case without
/// changing length. In-place case conversion, buffer sizing and cursor arithmetic are all about
/// these; every short string over them is enumerated where names and algorithm names are lower-cased.
pub fn length_changing_alphabet() -> &'static [char] {
    static A: std::sync::OnceLock<Vec<char>> = std::sync::OnceLock::new();
    A.get_or_init(|| {
        let mut v: Vec<char> = (0..=0x10FFFFu32)
            .filter_map(char::from_u32)
            .filter(|c| c.to_lowercase().map(char::len_utf8).sum::<usize>() != c.len_utf8())
            .collect();
        v.extend(['a', 'B', '.', '\u{c9}']);
        v
    })
}

/// Names of 18 to 25 bytes (around the inline capacity of the small-string type, 23) made of one filler
/// letter, with one length-changing letter at every position, alone or directly after a separator:
/// fixed-size buffers and "does it still fit" decisions are about these.
pub fn names_near_inline_capacity() -> &'static [String] {
    static V: std::sync::OnceLock<Vec<String>> = std::sync::OnceLock::new();
    V.get_or_init(|| {
        let mut v = Vec::new();
        for c in length_changing_alphabet() {
            for sep in ["", "-", "_", ".", "-."] {
                for len in 18..=25usize {
                    for pos in 0..=len {
                        for fill in ["a", "B"] {
                            v.push(format!("{}{sep}{c}{}", fill.repeat(pos), fill.repeat(len - pos)));
                        }
                    }
                }
            }
        }
        // two length-changing letters (one may grow while the other shrinks, so that the byte length stays the
        // same) at the two ends of a run that is longer than the inline capacity, and a word-final capital sigma
        // at the end of such a run
        let a = length_changing_alphabet();
        for c1 in a {
            for c2 in a {
                for len in [20usize, 22, 24, 26] {
                    v.push(format!("{c1}{}{c2}", "B".repeat(len)));
                }
            }
        }
        for len in 16..=28usize {
            for tail in ["\u{3a3}", "\u{391}\u{3a3}", "\u{3a3}.\u{3a3}"] {
                v.push(format!("{}{tail}", "A".repeat(len)));
                v.push(format!("{}{tail}", "\u{391}".repeat(len / 2)));
            }
        }
        v
    })
}

pub fn is_valid_type(s: &str) -> bool {
    !s.is_empty() && s.bytes().all(|b| b.is_ascii_alphanumeric() || b == b'.' || b == b'+' || b == b'-')
}

pub fn is_valid_key(s: &str) -> bool {
    !s.is_empty() && s.bytes().all(|b| b.is_ascii_alphanumeric() || b == b'.' || b == b'_' || b == b'-')
}
