//! G-shape: a parameterised family of user-written `PurlShape + FromStr` implementations.
//!
//! The behaviour (conversion succeeds / fails, what the finish hook does) is a value (`ShapeSpec`)
//! carried in a thread-local for `from_str` (a static function) and in the instance for the
//! builder path. Every call of `from_str` (with its argument) and of `finish` is logged.

use std::borrow::Cow;
use std::cell::RefCell;
use std::str::FromStr;

use proptest::prelude::*;
use proptest::sample::select;
use purl::{ParseError, PurlParts, PurlShape};
use serde::{Deserialize, Serialize};

use crate::api::SmallString;
use crate::buildprog::{garg, gck_text, gkey_any};

#[derive(Clone, Debug, Serialize, Deserialize, PartialEq, Eq, Hash)]
pub enum Action {
    Fail(u8),
    ClearName,
    SetName(String),
    LowerName,
    SetNamespace(String),
    SetVersion(String),
    SetSubpath(String),
    InsertQualifier(String, String),
    /// insert the key `checksum` (spelled as given) with this text
    InsertChecksum(String, String),
    RemoveQualifier(String),
    ClearQualifiers,
    /// overwrite an existing qualifier in place through `IndexMut` (nothing happens if it is absent)
    IndexSet(String, String),
    /// the hook itself parses (and prints) another PURL - re-entering the library while a parse or build is under way
    Reenter(String),
}

#[derive(Clone, Debug, Default, Serialize, Deserialize, PartialEq, Eq, Hash)]
pub struct ShapeSpec {
    pub conv_fail: Option<u8>,
    pub hook: Vec<Action>,
}

#[derive(Debug)]
pub enum ShapeError {
    Parse(ParseError),
    Conv(u8),
    Hook(u8),
}

impl From<ParseError> for ShapeError {
    fn from(e: ParseError) -> Self {
        ShapeError::Parse(e)
    }
}

impl std::fmt::Display for ShapeError {
    fn fmt(&self, f: &mut std::fmt::Formatter<'_>) -> std::fmt::Result {
        f.write_str(&shape_err_kind(self))
    }
}

pub fn shape_err_kind(e: &ShapeError) -> String {
    match e {
        ShapeError::Parse(p) => format!("Parse({})", crate::api::parse_err_kind(p)),
        ShapeError::Conv(c) => format!("Conv({c})"),
        ShapeError::Hook(c) => format!("Hook({c})"),
    }
}

#[derive(Clone, Debug, PartialEq, Eq)]
pub enum Event {
    FromStr(String),
    Finish,
}

thread_local! {
    static SPEC: RefCell<ShapeSpec> = RefCell::new(ShapeSpec::default());
    static LOG: RefCell<Vec<Event>> = const { RefCell::new(Vec::new()) };
}

pub fn set_spec(spec: &ShapeSpec) {
    SPEC.with(|s| *s.borrow_mut() = spec.clone());
    LOG.with(|l| l.borrow_mut().clear());
}

pub fn take_log() -> Vec<Event> {
    LOG.with(|l| std::mem::take(&mut *l.borrow_mut()))
}

#[derive(Clone, Debug, PartialEq, Eq, Hash, PartialOrd, Ord)]
pub struct TestShape {
    pub ty: String,
    pub spec_hook: Vec<ActionKey>,
}

/// Actions are kept in the instance in an orderable form (so that `GenericPurl<TestShape>` can
/// derive its comparison traits).
pub type ActionKey = String;

impl TestShape {
    pub fn new(ty: &str, spec: &ShapeSpec) -> Self {
        TestShape { ty: ty.to_string(), spec_hook: spec.hook.iter().map(|a| serde_json::to_string(a).unwrap()).collect() }
    }

    fn actions(&self) -> Vec<Action> {
        self.spec_hook.iter().map(|s| serde_json::from_str(s).unwrap()).collect()
    }
}

impl FromStr for TestShape {
    type Err = ShapeError;

    fn from_str(s: &str) -> Result<Self, Self::Err> {
        LOG.with(|l| l.borrow_mut().push(Event::FromStr(s.to_string())));
        let spec = SPEC.with(|s| s.borrow().clone());
        match spec.conv_fail {
            Some(c) => Err(ShapeError::Conv(c)),
            None => Ok(TestShape::new(s, &spec)),
        }
    }
}

pub fn apply_action(a: &Action, parts: &mut PurlParts) -> Result<(), ShapeError> {
    match a {
        Action::Fail(c) => return Err(ShapeError::Hook(*c)),
        Action::ClearName => parts.name = SmallString::new(),
        Action::SetName(s) => parts.name = SmallString::from(s.as_str()),
        Action::LowerName => parts.name = parts.name.to_lowercase().into(),
        Action::SetNamespace(s) => parts.namespace = SmallString::from(s.as_str()),
        Action::SetVersion(s) => parts.version = SmallString::from(s.as_str()),
        Action::SetSubpath(s) => parts.subpath = SmallString::from(s.as_str()),
        Action::InsertQualifier(k, v) | Action::InsertChecksum(k, v) => {
            let _ = parts.qualifiers.insert(k.as_str(), v.as_str());
        },
        Action::RemoveQualifier(k) => {
            let _ = parts.qualifiers.remove(k.as_str());
        },
        Action::ClearQualifiers => parts.qualifiers.clear(),
        Action::IndexSet(k, v) => {
            if parts.qualifiers.contains_key(k.as_str()) {
                parts.qualifiers[k.as_str()] = SmallString::from(v.as_str());
            }
        },
        Action::Reenter(s) => {
            let _ = <purl::GenericPurl<String> as FromStr>::from_str(s).map(|p| p.to_string());
            let _ = <purl::Purl as FromStr>::from_str(s).map(|p| p.to_string());
        },
    }
    Ok(())
}

impl PurlShape for TestShape {
    type Error = ShapeError;

    fn package_type(&self) -> Cow<'_, str> {
        Cow::Owned(self.ty.to_ascii_lowercase())
    }

    fn finish(&mut self, parts: &mut PurlParts) -> Result<(), Self::Error> {
        LOG.with(|l| l.borrow_mut().push(Event::Finish));
        for a in self.actions() {
            apply_action(&a, parts)?;
        }
        Ok(())
    }
}

// ---------------------------------------------------------------------------------------------

pub fn gaction() -> BoxedStrategy<Action> {
    prop_oneof![
        1 => (0u8..4).prop_map(Action::Fail),
        2 => Just(Action::ClearName),
        2 => garg().prop_map(Action::SetName),
        1 => Just(Action::LowerName),
        2 => garg().prop_map(Action::SetNamespace),
        2 => garg().prop_map(Action::SetVersion),
        2 => garg().prop_map(Action::SetSubpath),
        3 => (gkey_any(), garg()).prop_map(|(k, v)| Action::InsertQualifier(k, v)),
        1 => (gkey_any(), Just(String::new())).prop_map(|(k, v)| Action::InsertQualifier(k, v)),
        3 => (select(&["checksum", "Checksum", "CHECKSUM"][..]), gck_text()).prop_map(|(k, v)| Action::InsertChecksum(k.to_string(), v)),
        1 => gkey_any().prop_map(Action::RemoveQualifier),
        1 => Just(Action::ClearQualifiers),
        1 => (gkey_any(), garg()).prop_map(|(k, v)| Action::IndexSet(k, v)),
        1 => prop_oneof![
            select(&["pkg:cargo/foo@1.0", "pkg:npm/%40a/b?k=v#s", "not-a-purl", "pkg:t/%80", "pkg:pypi/A_b", ""][..]).prop_map(str::to_string),
            crate::gens::gsoup(),
        ]
        .prop_map(Action::Reenter),
        2 => (select(&["checksum", "Checksum"][..]), gck_text()).prop_map(|(k, v)| Action::IndexSet(k.to_string(), v)),
    ]
    .boxed()
}

pub fn gspec() -> BoxedStrategy<ShapeSpec> {
    (proptest::option::weighted(0.1, 0u8..4), proptest::collection::vec(gaction(), 0..=5))
        .prop_map(|(conv_fail, hook)| ShapeSpec { conv_fail, hook })
        .boxed()
}

// ---------------------------------------------------------------------------------------------
// model of the hook + generic post-checks

#[derive(Clone, Debug, PartialEq, Eq)]
pub struct PartsModel {
    pub ns: String,
    pub name: String,
    pub version: String,
    pub subpath: String,
    pub quals: std::collections::BTreeMap<String, String>,
}

#[derive(Clone, Debug, PartialEq, Eq)]
pub enum HookExpect {
    /// the PURL's fields (before M-segs), qualifiers with non-empty values, checksum canonical
    Ok(PartsModel),
    Err(Vec<String>),
}

pub fn apply_model(spec: &ShapeSpec, mut m: PartsModel) -> HookExpect {
    use crate::chars::is_valid_key;
    for a in &spec.hook {
        match a {
            Action::Fail(c) => return HookExpect::Err(vec![format!("Hook({c})")]),
            Action::ClearName => m.name.clear(),
            Action::SetName(s) => m.name = s.clone(),
            Action::LowerName => m.name = m.name.to_lowercase(),
            Action::SetNamespace(s) => m.ns = s.clone(),
            Action::SetVersion(s) => m.version = s.clone(),
            Action::SetSubpath(s) => m.subpath = s.clone(),
            Action::InsertQualifier(k, v) | Action::InsertChecksum(k, v) => {
                if is_valid_key(k) {
                    m.quals.insert(k.to_ascii_lowercase(), v.clone());
                }
            },
            Action::RemoveQualifier(k) => {
                if is_valid_key(k) {
                    m.quals.remove(&k.to_ascii_lowercase());
                }
            },
            Action::ClearQualifiers => m.quals.clear(),
            Action::IndexSet(k, v) => {
                if is_valid_key(k) {
                    if let Some(x) = m.quals.get_mut(&k.to_ascii_lowercase()) {
                        *x = v.clone();
                    }
                }
            },
            Action::Reenter(_) => {},
        }
    }
    let mut reasons = Vec::new();
    if m.name.is_empty() {
        reasons.push("Parse(MissingRequiredField(name))".to_string());
    }
    m.quals.retain(|_, v| !v.is_empty());
    if let Some(c) = m.quals.get("checksum").cloned() {
        match crate::model::cksum_canonical(&c) {
            Ok(t) => {
                m.quals.insert("checksum".into(), t);
            },
            Err(_) => reasons.push("Parse(InvalidQualifier)".to_string()),
        }
    }
    if reasons.is_empty() {
        HookExpect::Ok(m)
    } else {
        HookExpect::Err(reasons)
    }
}
