use std::path::PathBuf;

use pv::engine::{self, Ctx, Tier};

fn usage() -> ! {
    eprintln!("usage: pv <Cxx> quick|thorough | pv <Cxx> --replay <file> | pv --list");
    std::process::exit(2)
}

fn main() {
    let args: Vec<String> = std::env::args().skip(1).collect();
    if args.first().map(|s| s == "--dict").unwrap_or(false) {
        let d = pv::dict::dict();
        println!("strings ({}): {:?}", d.strings.len(), d.strings);
        println!("numbers ({}): {:?}", d.numbers.len(), d.numbers);
        return;
    }
    if args.first().map(|s| s == "--list").unwrap_or(false) {
        for p in pv::props::all() {
            println!("{}", p.id);
        }
        return;
    }
    if args.first().map(|s| s == "--gen-seed-corpus").unwrap_or(false) {
        // writes <root>/corpus/fuzz-seed/<target>/NNN (deterministic; committed to the repository)
        let root = PathBuf::from(std::env::var("VERIF_ROOT").unwrap_or_else(|_| "/verif".to_string()));
        pv::fuzzing::write_seed_corpus(&root);
        return;
    }
    if args.first().map(|s| s == "--fuzz-input").unwrap_or(false) {
        // pv --fuzz-input <target> <file>...: run the deterministic oracle of a fuzz target on raw input files
        let target = args.get(1).cloned().unwrap_or_default();
        let mut bad = 0;
        for f in &args[2..] {
            let bytes = std::fs::read(f).unwrap_or_default();
            let t0 = std::time::Instant::now();
            eprintln!("{f} ...");
            let input = pv::fuzzrun::FuzzInput { target: target.clone(), hex: pv::fuzzrun::to_hex(&bytes), text: String::new(), scope: std::env::var("PV_FUZZ_SCOPE").unwrap_or_default() };
            match pv::fuzzrun::oracle(&input, &mut pv::engine::Stats::scratch()) {
                Ok(()) => eprintln!("{f}: ok ({:?})", t0.elapsed()),
                Err(m) => {
                    bad += 1;
                    println!("{f}: ORACLE {m}");
                },
            }
        }
        std::process::exit(if bad > 0 { 1 } else { 0 });
    }
    if args.len() < 2 {
        usage();
    }
    let root = PathBuf::from(std::env::var("VERIF_ROOT").unwrap_or_else(|_| "/verif".to_string()));
    let props = pv::props::all();
    let Some(prop) = props.iter().find(|p| p.id == args[0]) else {
        eprintln!("unknown property {}", args[0]);
        std::process::exit(2)
    };
    engine::install_quiet_panic_hook();
    let sections = (prop.sections)();
    if args[1] == "--replay" {
        let Some(path) = args.get(2) else { usage() };
        std::process::exit(engine::replay_file(prop.id, &sections, &PathBuf::from(path)));
    }
    let tier_name = if args[1] == "quick" || args[1] == "thorough" {
        args[1].clone()
    } else {
        std::env::var("VERIF_TIER").unwrap_or_else(|_| "quick".to_string())
    };
    let tier = if tier_name == "thorough" { Tier::Thorough } else { Tier::Quick };
    let seed: u64 = std::env::var("VERIF_SEED")
        .ok()
        .and_then(|s| s.trim().parse::<i128>().ok())
        .map(|v| v as u64)
        .unwrap_or(0);
    let mut ctx = Ctx::new(prop.id, tier, seed, root);
    engine::run_regressions(&mut ctx, &sections);
    ctx.run_all(&sections);
    let extra = match prop.extra {
        Some(f) if ctx.failure.is_none() => f(&mut ctx),
        _ => serde_json::Value::Null,
    };
    let code = ctx.finish(prop.rule, prop.assumptions, extra);
    std::process::exit(code);
}
