//! Runner: worker threads, proptest drivers, enumeration drivers, counters, shrinking, replay
//! files, evidence writer, known-findings matcher, watchdog.
//!
//! Every check is a list of *sections*. A section is either random (a proptest strategy, run by
//! `W` workers with fixed seeds derived from `VERIF_SEED`) or enumerated (a finite index space,
//! partitioned over the workers). Every section has one oracle `fn(&Case, &mut Stats) ->
//! Result<(), String>`; the replay command calls exactly that oracle on the stored case.

use std::cell::RefCell;
use std::collections::{BTreeMap, HashSet};
use std::fmt::Debug;
use std::hash::{Hash, Hasher};
use std::panic::{self, AssertUnwindSafe};
use std::path::{Path, PathBuf};
use std::sync::atomic::{AtomicBool, AtomicU64, Ordering};
use std::sync::Mutex;
use std::time::{Duration, Instant};

use proptest::strategy::BoxedStrategy;
use proptest::test_runner::{Config, RngSeed, TestCaseError, TestError, TestRunner};
use serde::de::DeserializeOwned;
use serde::Serialize;
use serde_json::{json, Value};

pub const WORKERS: usize = 16;

#[derive(Clone, Copy, Debug, PartialEq, Eq)]
pub enum Tier {
    Quick,
    Thorough,
}

impl Tier {
    pub fn name(self) -> &'static str {
        match self {
            Tier::Quick => "quick",
            Tier::Thorough => "thorough",
        }
    }

    /// Pick a size by tier.
    pub fn pick<T>(self, quick: T, thorough: T) -> T {
        match self {
            Tier::Quick => quick,
            Tier::Thorough => thorough,
        }
    }
}

// ---------------------------------------------------------------------------------------------
// panic plumbing

thread_local! {
    static LAST_PANIC: RefCell<Option<String>> = const { RefCell::new(None) };
}

/// Install a panic hook that prints nothing and remembers the message per thread.
pub fn install_quiet_panic_hook() {
    panic::set_hook(Box::new(|info| {
        let msg = if let Some(s) = info.payload().downcast_ref::<&str>() {
            (*s).to_string()
        } else if let Some(s) = info.payload().downcast_ref::<String>() {
            s.clone()
        } else {
            "<non-string panic payload>".to_string()
        };
        let loc = info.location().map(|l| format!("{}:{}", l.file(), l.line())).unwrap_or_default();
        LAST_PANIC.with(|p| *p.borrow_mut() = Some(format!("{msg} @ {loc}")));
    }));
}

/// Run a library call; a panic becomes `Err(message)`.
pub fn guard<R>(f: impl FnOnce() -> R) -> Result<R, String> {
    match panic::catch_unwind(AssertUnwindSafe(f)) {
        Ok(r) => Ok(r),
        Err(_) => Err(LAST_PANIC
            .with(|p| p.borrow_mut().take())
            .unwrap_or_else(|| "<panic without message>".to_string())),
    }
}

// ---------------------------------------------------------------------------------------------
// statistics

fn hash64<H: Hash + ?Sized>(h: &H) -> u64 {
    // A fixed-key hasher so that counts are a function of code and seed only.
    let mut s = Fnv(0xcbf29ce484222325);
    h.hash(&mut s);
    s.0
}

struct Fnv(u64);
impl Hasher for Fnv {
    fn finish(&self) -> u64 {
        // final avalanche (splitmix) so that short inputs spread
        let mut z = self.0.wrapping_add(0x9E3779B97F4A7C15);
        z = (z ^ (z >> 30)).wrapping_mul(0xBF58476D1CE4E5B9);
        z = (z ^ (z >> 27)).wrapping_mul(0x94D049BB133111EB);
        z ^ (z >> 31)
    }

    fn write(&mut self, bytes: &[u8]) {
        for b in bytes {
            self.0 ^= *b as u64;
            self.0 = self.0.wrapping_mul(0x100000001b3);
        }
    }
}

pub fn mix(parts: &[u64]) -> u64 {
    let mut z: u64 = 0x243F6A8885A308D3;
    for p in parts {
        z = z.wrapping_add(*p).wrapping_add(0x9E3779B97F4A7C15);
        z = (z ^ (z >> 30)).wrapping_mul(0xBF58476D1CE4E5B9);
        z = (z ^ (z >> 27)).wrapping_mul(0x94D049BB133111EB);
        z ^= z >> 31;
    }
    z
}

pub fn str_hash(s: &str) -> u64 {
    hash64(s)
}

const SAMPLES_PER_WORKER: usize = 3;

/// Per-worker counters. Oracles call `class`, `nontrivial`, `excluded`.
pub struct Stats {
    pub evals: u64,
    pub classes: BTreeMap<&'static str, u64>,
    nontrivial: HashSet<u64>,
    nontrivial_counted: u64,
    samples: Vec<Value>,
    excluded: BTreeMap<String, u64>,
    counting: bool,
    salt: u64,
    /// open known-finding signatures: a case whose trigger matches is skipped
    open: Vec<String>,
}

impl Stats {
    pub fn new(salt: u64, open: Vec<String>) -> Self {
        Stats {
            evals: 0,
            classes: BTreeMap::new(),
            nontrivial: HashSet::new(),
            nontrivial_counted: 0,
            samples: Vec::new(),
            excluded: BTreeMap::new(),
            counting: true,
            salt,
            open,
        }
    }

    pub fn scratch() -> Self {
        Stats::new(0, Vec::new())
    }

    /// Count a class of case (read the distribution in the evidence file).
    pub fn class(&mut self, name: &'static str) {
        if self.counting {
            *self.classes.entry(name).or_insert(0) += 1;
        }
    }

    pub fn class_if(&mut self, cond: bool, name: &'static str) {
        if cond {
            self.class(name)
        }
    }

    /// Record a case that is non-trivial by the property's rule; `key` identifies it for the
    /// distinct count.
    pub fn nontrivial<K: Hash + ?Sized>(&mut self, key: &K, sample: impl FnOnce() -> Value) {
        if !self.counting {
            return;
        }
        let h = mix(&[self.salt, hash64(key)]);
        if self.nontrivial.insert(h) && self.samples.len() < SAMPLES_PER_WORKER {
            self.samples.push(sample());
        }
    }

    /// Same, for enumerated spaces whose cases are distinct by construction (no hash kept).
    /// An oracle that judges a whole block of inputs in one call reports how many it judged.
    pub fn add_evaluations(&mut self, n: u64) {
        if self.counting {
            self.evals += n.saturating_sub(1);
        }
    }

    pub fn nontrivial_enumerated(&mut self, sample: impl FnOnce() -> Value) {
        if !self.counting {
            return;
        }
        self.nontrivial_counted += 1;
        if self.samples.len() < SAMPLES_PER_WORKER {
            self.samples.push(sample());
        }
    }

    /// Is this trigger signature an open known finding? If so the case is to be skipped by the
    /// caller (and is counted as excluded).
    pub fn is_open(&mut self, signature: &str) -> bool {
        if self.open.iter().any(|s| s == signature) {
            if self.counting {
                *self.excluded.entry(signature.to_string()).or_insert(0) += 1;
            }
            true
        } else {
            false
        }
    }
}

// ---------------------------------------------------------------------------------------------
// known findings

#[derive(Clone, Debug, Default)]
pub struct KnownFindings {
    /// (property, signature, description) of open findings
    pub open: Vec<(String, String, String)>,
    pub fixed: Vec<String>,
}

impl KnownFindings {
    /// File format, one entry per line:
    ///   `fixed: property=<id> <commit> <what failed>`           (suppresses nothing)
    ///   `open: property=<id> signature=<sig> <what fails>`      (suppressed, reported as KNOWN-FINDING)
    pub fn load(path: &Path) -> Self {
        let mut k = KnownFindings::default();
        let Ok(text) = std::fs::read_to_string(path) else { return k };
        for line in text.lines() {
            let line = line.trim();
            if line.is_empty() || line.starts_with('#') {
                continue;
            }
            if let Some(rest) = line.strip_prefix("fixed:") {
                k.fixed.push(rest.trim().to_string());
            } else if let Some(rest) = line.strip_prefix("open:") {
                // open: property=<id> signature="<text that occurs in the failure message>" <what fails>
                let rest = rest.trim();
                let prop = rest.split_whitespace().find_map(|w| w.strip_prefix("property=")).unwrap_or("").to_string();
                let (sig, desc) = match rest.find("signature=\"") {
                    Some(i) => {
                        let after = &rest[i + 11..];
                        match after.find('"') {
                            Some(j) => (after[..j].to_string(), after[j + 1..].trim().to_string()),
                            None => (String::new(), String::new()),
                        }
                    },
                    None => (String::new(), String::new()),
                };
                if !prop.is_empty() && !sig.is_empty() {
                    k.open.push((prop, sig, desc));
                }
            }
        }
        k
    }

    pub fn open_for(&self, prop: &str) -> Vec<String> {
        self.open.iter().filter(|(p, _, _)| p == prop).map(|(_, s, _)| s.clone()).collect()
    }
}

// ---------------------------------------------------------------------------------------------
// sections

#[derive(Clone, Debug)]
pub struct Failure {
    pub section: String,
    pub case: Value,
    pub message: String,
    pub found_by: String,
}

pub struct SectionReport {
    pub name: String,
    pub kind: &'static str,
    pub evaluations: u64,
    pub distinct_nontrivial: u64,
    pub classes: BTreeMap<&'static str, u64>,
    pub samples: Vec<Value>,
    pub excluded: BTreeMap<String, u64>,
    pub exhaustive: bool,
    pub space: Option<u64>,
    pub wall_s: f64,
}

pub type Oracle<C> = fn(&C, &mut Stats) -> Result<(), String>;

pub trait Section: Sync {
    fn name(&self) -> &str;
    fn run(&self, ctx: &mut Ctx);
    fn replay(&self, case: &Value) -> Result<(), String>;
}

/// A random section: `strategy` is called once per worker thread.
pub type StrategyFn<C> = Box<dyn Fn(Tier) -> BoxedStrategy<C> + Send + Sync>;

pub struct Random<C: 'static> {
    pub name: String,
    pub quick: u64,
    pub thorough: u64,
    pub strategy: StrategyFn<C>,
    pub oracle: Oracle<C>,
    /// classes that must be non-empty after a complete run, else the harness is broken (exit 2)
    pub required: Vec<&'static str>,
}

/// An enumerated section: cases `make(tier, 0..total(tier))`.
pub struct Enumerated<C: 'static> {
    pub name: String,
    pub total: Box<dyn Fn(Tier) -> u64 + Send + Sync>,
    pub make: Box<dyn Fn(Tier, u64) -> Option<C> + Send + Sync>,
    pub oracle: Oracle<C>,
    pub required: Vec<&'static str>,
    /// the enumeration covers a finite sub-space completely
    pub complete: bool,
}

/// A fixed list of cases (regression inputs, corpus); replayable like any other.
pub struct Listed<C: 'static> {
    pub name: String,
    pub cases: Box<dyn Fn(Tier) -> Vec<C> + Send + Sync>,
    pub oracle: Oracle<C>,
}

pub struct Ctx {
    pub prop: &'static str,
    pub tier: Tier,
    pub seed: u64,
    pub root: PathBuf,
    pub known: KnownFindings,
    pub reports: Vec<SectionReport>,
    pub failure: Option<Failure>,
    pub infra_errors: Vec<String>,
    pub start: Instant,
    pub only_section: Option<String>,
    pub scale: f64,
}

static PROGRESS: AtomicU64 = AtomicU64::new(0);
static WATCHDOG_STARTED: AtomicBool = AtomicBool::new(false);

pub fn tick() {
    PROGRESS.fetch_add(1, Ordering::Relaxed);
}

fn start_watchdog(limit: Duration) {
    if WATCHDOG_STARTED.swap(true, Ordering::SeqCst) {
        return;
    }
    std::thread::spawn(move || {
        let mut last = PROGRESS.load(Ordering::Relaxed);
        let mut since = Instant::now();
        loop {
            std::thread::sleep(Duration::from_secs(1));
            let now = PROGRESS.load(Ordering::Relaxed);
            if now != last {
                last = now;
                since = Instant::now();
            } else if since.elapsed() > limit {
                println!(
                    "INCONCLUSIVE: watchdog: no progress for {} s (reported as exit 2, never as a violation)",
                    limit.as_secs()
                );
                std::process::exit(2);
            }
        }
    });
}

impl Ctx {
    pub fn new(prop: &'static str, tier: Tier, seed: u64, root: PathBuf) -> Self {
        let known = KnownFindings::load(&root.join("known_findings.txt"));
        let scale = std::env::var("VERIF_SCALE").ok().and_then(|s| s.parse().ok()).unwrap_or(1.0);
        start_watchdog(Duration::from_secs(300));
        Ctx {
            prop,
            tier,
            seed,
            root,
            known,
            reports: Vec::new(),
            failure: None,
            infra_errors: Vec::new(),
            start: Instant::now(),
            only_section: std::env::var("VERIF_SECTION").ok(),
            scale,
        }
    }

    fn skip(&self, name: &str) -> bool {
        if self.failure.is_some() {
            return true;
        }
        match &self.only_section {
            Some(s) => !name.starts_with(s.as_str()),
            None => false,
        }
    }

    fn check_required(&mut self, name: &str, classes: &BTreeMap<&'static str, u64>, required: &[&'static str]) {
        for r in required {
            if classes.get(r).copied().unwrap_or(0) == 0 {
                self.infra_errors.push(format!(
                    "section {name}: required class '{r}' is empty - generator bug, not a violation"
                ));
            }
        }
    }

    pub fn run_all(&mut self, sections: &[Box<dyn Section>]) {
        for s in sections {
            s.run(self);
        }
    }
}

fn to_value<C: Serialize>(c: &C) -> Value {
    serde_json::to_value(c).unwrap_or_else(|e| json!({ "unserialisable": e.to_string() }))
}

impl<C> Section for Random<C>
where
    C: Debug + Clone + Serialize + DeserializeOwned + 'static,
{
    fn name(&self) -> &str {
        &self.name
    }

    fn replay(&self, case: &Value) -> Result<(), String> {
        let c: C = serde_json::from_value(case.clone()).map_err(|e| format!("bad replay case: {e}"))?;
        run_oracle(self.oracle, &c, &mut Stats::scratch())
    }

    fn run(&self, ctx: &mut Ctx) {
        if ctx.skip(&self.name) {
            return;
        }
        let t0 = Instant::now();
        let total = ((ctx.tier.pick(self.quick, self.thorough) as f64) * ctx.scale).ceil() as u64;
        let per_worker = total.div_ceil(WORKERS as u64).max(1);
        let results: Mutex<Vec<(usize, Stats, Option<Failure>)>> = Mutex::new(Vec::new());
        let open = ctx.known.open_for(ctx.prop);
        let (seed, prop, tier) = (ctx.seed, ctx.prop, ctx.tier);
        std::thread::scope(|scope| {
            for w in 0..WORKERS {
                let results = &results;
                let open = open.clone();
                let this = &*self;
                scope.spawn(move || {
                    let wseed = mix(&[seed, str_hash(prop), str_hash(&this.name), w as u64]);
                    let stats = RefCell::new(Stats::new(str_hash(&this.name), open));
                    let mut runner = TestRunner::new(Config {
                        cases: per_worker.min(u32::MAX as u64) as u32,
                        failure_persistence: None,
                        max_shrink_iters: 20_000,
                        // shrinking a session of thousands of calls is slow: minimality is worth 90 s, not more
                        max_shrink_time: 90_000,
                        rng_seed: RngSeed::Fixed(wseed),
                        max_global_rejects: 1_000_000,
                        ..Config::default()
                    });
                    let strat = (this.strategy)(tier);
                    let res = runner.run(&strat, |case| {
                        tick();
                        let mut st = stats.borrow_mut();
                        if st.counting {
                            st.evals += 1;
                        }
                        match run_oracle(this.oracle, &case, &mut st) {
                            Ok(()) => Ok(()),
                            Err(m) => {
                                st.counting = false;
                                Err(TestCaseError::fail(m))
                            },
                        }
                    });
                    let failure = match res {
                        Ok(()) => None,
                        Err(TestError::Fail(reason, case)) => Some(Failure {
                            section: this.name.clone(),
                            case: to_value(&case),
                            message: reason.message().to_string(),
                            found_by: format!("proptest worker {w} rng_seed {wseed}"),
                        }),
                        Err(TestError::Abort(reason)) => Some(Failure {
                            section: this.name.clone(),
                            case: Value::Null,
                            message: format!("ABORT: {}", reason.message()),
                            found_by: format!("proptest worker {w}"),
                        }),
                    };
                    results.lock().unwrap().push((w, stats.into_inner(), failure));
                });
            }
        });
        let mut results = results.into_inner().unwrap();
        results.sort_by_key(|r| r.0);
        let mut rep = merge(&self.name, "random", results.iter().map(|r| &r.1));
        rep.wall_s = t0.elapsed().as_secs_f64();
        let mut failed = false;
        for (_, _, f) in results {
            if let Some(f) = f {
                failed = true;
                if f.message.starts_with("ABORT: ") {
                    ctx.infra_errors.push(format!("section {}: {}", self.name, f.message));
                } else if ctx.failure.is_none() {
                    ctx.failure = Some(f);
                }
            }
        }
        // (a section in which cases were excluded for an open known finding may legitimately miss a class)
        if !failed && rep.excluded.is_empty() {
            ctx.check_required(&self.name.clone(), &rep.classes, &self.required.clone());
        }
        ctx.reports.push(rep);
    }
}

fn run_oracle<C>(oracle: Oracle<C>, case: &C, st: &mut Stats) -> Result<(), String> {
    // The oracle guards library calls itself; a panic that escapes is reported as such.
    let r = match panic::catch_unwind(AssertUnwindSafe(|| oracle(case, st))) {
        Ok(r) => r,
        Err(_) => Err(format!(
            "panic escaped the oracle: {}",
            LAST_PANIC.with(|p| p.borrow_mut().take()).unwrap_or_default()
        )),
    };
    // An *open* known finding (known_findings.txt, `open:` line) is identified by a signature
    // that must occur in the failure message (the specific input, call site or history). Such a
    // case is excluded - counted, not reported - so that the search continues behind it; any
    // other violation of the same property is still reported.
    if let Err(m) = &r {
        let hit = st.open.iter().find(|sig| m.contains(sig.as_str())).cloned();
        if let Some(sig) = hit {
            if st.counting {
                *st.excluded.entry(sig).or_insert(0) += 1;
            }
            return Ok(());
        }
    }
    r
}

fn merge<'a>(name: &str, kind: &'static str, stats: impl Iterator<Item = &'a Stats>) -> SectionReport {
    let mut rep = SectionReport {
        name: name.to_string(),
        kind,
        evaluations: 0,
        distinct_nontrivial: 0,
        classes: BTreeMap::new(),
        samples: Vec::new(),
        excluded: BTreeMap::new(),
        exhaustive: false,
        space: None,
        wall_s: 0.0,
    };
    let mut all: HashSet<u64> = HashSet::new();
    for s in stats {
        rep.evaluations += s.evals;
        for (k, v) in &s.classes {
            *rep.classes.entry(k).or_insert(0) += v;
        }
        for (k, v) in &s.excluded {
            *rep.excluded.entry(k.clone()).or_insert(0) += v;
        }
        all.extend(s.nontrivial.iter().copied());
        rep.distinct_nontrivial += s.nontrivial_counted;
        if rep.samples.len() < 6 {
            rep.samples.extend(s.samples.iter().take(2).cloned());
        }
    }
    rep.distinct_nontrivial += all.len() as u64;
    rep
}

impl<C> Section for Enumerated<C>
where
    C: Debug + Clone + Serialize + DeserializeOwned + 'static,
{
    fn name(&self) -> &str {
        &self.name
    }

    fn replay(&self, case: &Value) -> Result<(), String> {
        let c: C = serde_json::from_value(case.clone()).map_err(|e| format!("bad replay case: {e}"))?;
        run_oracle(self.oracle, &c, &mut Stats::scratch())
    }

    fn run(&self, ctx: &mut Ctx) {
        if ctx.skip(&self.name) {
            return;
        }
        let t0 = Instant::now();
        let total = (self.total)(ctx.tier);
        // small spaces of heavy cases (blocks) must still spread over all workers
        let chunk: u64 = (total / (WORKERS as u64 * 8)).clamp(1, 4096);
        let next = AtomicU64::new(0);
        let first_fail = AtomicU64::new(u64::MAX);
        let results: Mutex<Vec<(Stats, Option<(u64, Failure)>)>> = Mutex::new(Vec::new());
        let open = ctx.known.open_for(ctx.prop);
        let tier = ctx.tier;
        std::thread::scope(|scope| {
            for _w in 0..WORKERS {
                let (next, first_fail, results) = (&next, &first_fail, &results);
                let open = open.clone();
                let this = &*self;
                scope.spawn(move || {
                    let mut st = Stats::new(str_hash(&this.name), open);
                    let mut fail: Option<(u64, Failure)> = None;
                    'outer: loop {
                        let lo = next.fetch_add(chunk, Ordering::Relaxed);
                        if lo >= total || lo > first_fail.load(Ordering::Relaxed) {
                            break;
                        }
                        tick();
                        for i in lo..(lo + chunk).min(total) {
                            let Some(case) = (this.make)(tier, i) else { continue };
                            st.evals += 1;
                            if let Err(m) = run_oracle(this.oracle, &case, &mut st) {
                                first_fail.fetch_min(i, Ordering::Relaxed);
                                fail = Some((i, Failure {
                                    section: this.name.clone(),
                                    case: to_value(&case),
                                    message: m,
                                    found_by: format!("enumeration index {i} of {total}"),
                                }));
                                break 'outer;
                            }
                        }
                    }
                    results.lock().unwrap().push((st, fail));
                });
            }
        });
        let results = results.into_inner().unwrap();
        let mut rep = merge(&self.name, "enumerated", results.iter().map(|r| &r.0));
        rep.wall_s = t0.elapsed().as_secs_f64();
        rep.space = Some(total);
        let best = results.into_iter().filter_map(|r| r.1).min_by_key(|f| f.0);
        match best {
            Some((_, f)) => {
                if ctx.failure.is_none() {
                    ctx.failure = Some(f);
                }
            },
            None => {
                rep.exhaustive = self.complete && rep.excluded.is_empty();
                if rep.excluded.is_empty() {
                    ctx.check_required(&self.name.clone(), &rep.classes, &self.required.clone());
                }
            },
        }
        ctx.reports.push(rep);
    }
}

impl<C> Section for Listed<C>
where
    C: Debug + Clone + Serialize + DeserializeOwned + Sync + 'static,
{
    fn name(&self) -> &str {
        &self.name
    }

    fn replay(&self, case: &Value) -> Result<(), String> {
        let c: C = serde_json::from_value(case.clone()).map_err(|e| format!("bad replay case: {e}"))?;
        run_oracle(self.oracle, &c, &mut Stats::scratch())
    }

    fn run(&self, ctx: &mut Ctx) {
        if ctx.skip(&self.name) {
            return;
        }
        let t0 = Instant::now();
        let cases = (self.cases)(ctx.tier);
        let mut st = Stats::new(str_hash(&self.name), ctx.known.open_for(ctx.prop));
        for (i, c) in cases.iter().enumerate() {
            tick();
            st.evals += 1;
            if let Err(m) = run_oracle(self.oracle, c, &mut st) {
                ctx.failure = Some(Failure {
                    section: self.name.clone(),
                    case: to_value(c),
                    message: m,
                    found_by: format!("listed case {i}"),
                });
                break;
            }
        }
        let mut rep = merge(&self.name, "listed", std::iter::once(&st));
        rep.wall_s = t0.elapsed().as_secs_f64();
        rep.space = Some(cases.len() as u64);
        ctx.reports.push(rep);
    }
}

// ---------------------------------------------------------------------------------------------
// replay files, evidence, verdict

#[derive(Serialize, serde::Deserialize, Debug, Clone)]
pub struct ReplayFile {
    pub property: String,
    pub section: String,
    pub case: Value,
    #[serde(default)]
    pub found_by: String,
    #[serde(default)]
    pub seed: u64,
    #[serde(default)]
    pub message: String,
}

impl Ctx {
    /// Write evidence + replay file, print the verdict lines, return the exit code.
    pub fn finish(&mut self, rule: &str, assumptions: &[&str], extra: Value) -> i32 {
        let wall = self.start.elapsed().as_secs_f64();
        let mut violations = 0;
        let mut replay_path = None;
        if let Some(f) = &self.failure {
            violations = 1;
            let dir = self.root.join("replays");
            let _ = std::fs::create_dir_all(&dir);
            let h = hash64(&(f.section.as_str(), f.case.to_string()));
            let path = dir.join(format!("{}-{:016x}.json", self.prop, h));
            let file = ReplayFile {
                property: self.prop.to_string(),
                section: f.section.clone(),
                case: f.case.clone(),
                found_by: f.found_by.clone(),
                seed: self.seed,
                message: f.message.clone(),
            };
            let _ = std::fs::write(&path, serde_json::to_string_pretty(&file).unwrap());
            replay_path = Some(path);
        }

        let evaluations: u64 = self.reports.iter().map(|r| r.evaluations).sum();
        let distinct: u64 = self.reports.iter().map(|r| r.distinct_nontrivial).sum();
        let mut samples: Vec<Value> = Vec::new();
        for r in &self.reports {
            for s in r.samples.iter().take(3) {
                samples.push(json!({ "section": r.name, "case": s }));
            }
        }
        if samples.is_empty() {
            // a run that stopped at its first case: the failing case is what was explored
            if let Some(f) = &self.failure {
                samples.push(json!({ "section": f.section, "case": f.case, "failing": true }));
            }
        }
        let sections: Vec<Value> = self
            .reports
            .iter()
            .map(|r| {
                json!({
                    "section": r.name,
                    "kind": r.kind,
                    "evaluations": r.evaluations,
                    "distinct_nontrivial": r.distinct_nontrivial,
                    "space": r.space,
                    "exhaustive": r.exhaustive,
                    "classes": r.classes,
                    "excluded_known_findings": r.excluded,
                    "wall_s": (r.wall_s * 1000.0).round() / 1000.0,
                })
            })
            .collect();
        let exhaustive_subspaces: Vec<Value> = self
            .reports
            .iter()
            .filter(|r| r.kind == "enumerated")
            .map(|r| json!({ "name": r.name, "size": r.space, "complete": r.exhaustive }))
            .collect();
        let evidence = json!({
            "property_id": self.prop,
            "tier": self.tier.name(),
            "seed": self.seed,
            "level": "exploration",
            "coverage": {
                "evaluations": evaluations,
                "distinct_nontrivial": distinct,
                "rule": rule,
                "samples": samples,
                "exhaustive": false,
                "exhaustive_subspaces": exhaustive_subspaces,
                "sections": sections,
                "extra": extra,
            },
            "assumptions": assumptions,
            "wall_s": (wall * 1000.0).round() / 1000.0,
            "violations": violations,
            "failure": self.failure.as_ref().map(|f| json!({
                "section": f.section, "message": f.message, "case": f.case, "found_by": f.found_by,
            })),
            "infrastructure_errors": self.infra_errors,
        });
        let dir = self.root.join("evidence");
        let _ = std::fs::create_dir_all(&dir);
        let path = dir.join(format!("{}.json", self.prop));
        if let Err(e) = std::fs::write(&path, serde_json::to_string_pretty(&evidence).unwrap()) {
            println!("INCONCLUSIVE: cannot write evidence file {}: {e}", path.display());
            return 2;
        }

        for (p, sig, desc) in &self.known.open {
            if p == self.prop {
                let n: u64 = self.reports.iter().map(|r| r.excluded.get(sig).copied().unwrap_or(0)).sum();
                println!("KNOWN-FINDING: property={p} signature={sig} {desc} (cases excluded by construction this run: {n})");
            }
        }
        println!(
            "{} {} seed={} evaluations={} distinct_nontrivial={} wall={:.1}s",
            self.prop,
            self.tier.name(),
            self.seed,
            evaluations,
            distinct,
            wall
        );
        if let (Some(f), Some(p)) = (&self.failure, &replay_path) {
            println!("FAILURE section={} message={}", f.section, f.message);
            let shown = f.case.to_string();
            if shown.len() > 4_000 {
                let cut = (0..=4_000).rev().find(|i| shown.is_char_boundary(*i)).unwrap_or(0);
                println!("FAILURE case={} ... [{} bytes, complete in the replay file]", &shown[..cut], shown.len());
            } else {
                println!("FAILURE case={shown}");
            }
            println!("VIOLATION property={} replay={}", self.prop, p.display());
            return 1;
        }
        if !self.infra_errors.is_empty() {
            for e in &self.infra_errors {
                println!("INCONCLUSIVE: {e}");
            }
            return 2;
        }
        println!("OK property={} held on everything explored", self.prop);
        0
    }
}

/// Replay one file against a property's sections.
pub fn replay_file(prop: &str, sections: &[Box<dyn Section>], path: &Path) -> i32 {
    let text = match std::fs::read_to_string(path) {
        Ok(t) => t,
        Err(e) => {
            println!("INCONCLUSIVE: cannot read {}: {e}", path.display());
            return 2;
        },
    };
    let file: ReplayFile = match serde_json::from_str(&text) {
        Ok(f) => f,
        Err(e) => {
            println!("INCONCLUSIVE: cannot parse {}: {e}", path.display());
            return 2;
        },
    };
    if file.property != prop {
        println!("INCONCLUSIVE: replay file is for property {} not {prop}", file.property);
        return 2;
    }
    let Some(sec) = sections.iter().find(|s| s.name() == file.section) else {
        println!("INCONCLUSIVE: unknown section {}", file.section);
        return 2;
    };
    match sec.replay(&file.case) {
        Ok(()) => {
            println!("REPLAY-PASS property={prop} section={} file={}", file.section, path.display());
            0
        },
        Err(m) => {
            if m.starts_with("bad replay case") {
                println!("INCONCLUSIVE: {m}");
                return 2;
            }
            println!("FAILURE section={} message={m}", file.section);
            println!("VIOLATION property={prop} replay={}", path.display());
            1
        },
    }
}

/// All committed regression replays of a property: `<root>/corpus/regress/<prop>/*.json`.
pub fn regression_files(root: &Path, prop: &str) -> Vec<PathBuf> {
    let dir = root.join("corpus").join("regress").join(prop);
    let mut v: Vec<PathBuf> = match std::fs::read_dir(&dir) {
        Ok(rd) => rd.filter_map(|e| e.ok().map(|e| e.path())).filter(|p| p.extension().map(|e| e == "json").unwrap_or(false)).collect(),
        Err(_) => Vec::new(),
    };
    v.sort();
    v
}

/// Run the committed regression replays first (plain checks that bypass generators and proptest).
pub fn run_regressions(ctx: &mut Ctx, sections: &[Box<dyn Section>]) {
    let t0 = Instant::now();
    let files = regression_files(&ctx.root, ctx.prop);
    let open = ctx.known.open_for(ctx.prop);
    let mut excluded: BTreeMap<String, u64> = BTreeMap::new();
    let mut n = 0;
    for path in &files {
        let Ok(text) = std::fs::read_to_string(path) else { continue };
        let Ok(file) = serde_json::from_str::<ReplayFile>(&text) else {
            ctx.infra_errors.push(format!("unparsable regression file {}", path.display()));
            continue;
        };
        let Some(sec) = sections.iter().find(|s| s.name() == file.section) else {
            ctx.infra_errors.push(format!("regression file {} names unknown section {}", path.display(), file.section));
            continue;
        };
        n += 1;
        if let Err(m) = sec.replay(&file.case) {
            // an open known finding also covers its regression inputs
            if let Some(sig) = open.iter().find(|sig| m.contains(sig.as_str())) {
                *excluded.entry(sig.clone()).or_insert(0) += 1;
                continue;
            }
            if ctx.failure.is_none() {
                ctx.failure = Some(Failure {
                    section: file.section.clone(),
                    case: file.case.clone(),
                    message: m,
                    found_by: format!("regression replay {}", path.display()),
                });
            }
            break;
        }
    }
    ctx.reports.push(SectionReport {
        name: "regression-replays".into(),
        kind: "listed",
        evaluations: n,
        distinct_nontrivial: 0,
        classes: BTreeMap::new(),
        samples: Vec::new(),
        excluded,
        exhaustive: false,
        space: Some(files.len() as u64),
        wall_s: t0.elapsed().as_secs_f64(),
    });
}
