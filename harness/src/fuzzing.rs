//! Entry points for the libFuzzer targets (and for replaying their corpus / artefacts in `pv`).

use proptest::strategy::{Strategy, ValueTree};
use proptest::test_runner::{Config, RngAlgorithm, TestRng, TestRunner};

use crate::api::{ISmall, IStr, ITyped};
use crate::engine::{install_quiet_panic_hook, Stats};
use crate::props::{c01, c02, c03, c04, c05, c06, c07, c08, c09, c10, c11, c12, c13, c14, c16};

fn init() {
    static ONCE: std::sync::Once = std::sync::Once::new();
    ONCE.call_once(install_quiet_panic_hook);
}

/// The scope of a fuzz run: a property id restricts the judgement to that property's own oracle
/// (a check must only ever report violations of its own property); no scope = every oracle.
pub fn env_scope() -> Option<String> {
    static SCOPE: std::sync::OnceLock<Option<String>> = std::sync::OnceLock::new();
    SCOPE.get_or_init(|| std::env::var("PV_FUZZ_SCOPE").ok().filter(|s| !s.is_empty())).clone()
}

pub fn string_oracles_scoped(s: &str, scope: Option<&str>) -> Result<(), String> {
    init();
    let st = &mut Stats::scratch();
    match scope {
        Some("C01") => c01::roundtrip_all(s, st),
        Some("C06") => c06::parse_all(s, st),
        _ => string_oracles(s),
    }
}

pub fn api_oracles_scoped(data: &[u8], scope: Option<&str>) -> Result<(), String> {
    match (api_oracles(data), scope) {
        // C06 is about panics only: a disagreement with a reference model belongs to another property
        (Err(m), Some("C06")) if !m.contains("panicked") && !m.contains("panic escaped") => Ok(()),
        (r, _) => r,
    }
}

/// Every string-level oracle of the harness on one input string.
pub fn string_oracles(s: &str) -> Result<(), String> {
    init();
    let st = &mut Stats::scratch();
    c06::parse_all(s, st)?;
    c01::roundtrip_all(s, st)?;
    c03::parsed::<IStr>(s, st)?;
    c03::parsed::<ISmall>(s, st)?;
    c03::parsed::<ITyped>(s, st)?;
    c04::parsed_all(s, st)?;
    c07::inv_all(s, st)?;
    c08::differential(s, st)?;
    c10::parse_all(s, st)?;
    c13::parse_diff(s, st)?;
    c16::all(s, st)?;
    // differential against the independent strict recogniser (C02 accept side, C05 reject side)
    let owned = s.to_string();
    c02::o_token(&owned, st)?;
    c05::o_token(&owned, st)?;
    Ok(())
}

/// One API program decoded from the fuzzer's bytes (see `fuzzdec`).
pub fn api_oracles(data: &[u8]) -> Result<(), String> {
    init();
    let Some((sel, rest)) = data.split_first() else { return Ok(()) };
    let st = &mut Stats::scratch();
    let mut d = crate::fuzzdec::Dec::new(rest);
    match sel % 6 {
        0 | 1 => {
            let typed = sel % 6 == 1;
            let program = d.program(typed);
            let perm = (0..8).map(|_| d.ch.next(256) as u8).collect();
            c09::o_case(&c09::ProgCase { program, typed, perm }, st)
        },
        2 => c11::o_case_full(&d.qcase(), st),
        3 => c12::o_case_full(&d.ckcase(), st),
        4 => {
            // a valid spelling of a small tuple parsed with a user shape
            let spec = d.spec();
            let tuple = crate::spell::Tuple {
                ty: "Ty.1".into(),
                ns: if d.ch.flag() { vec![d.text().replace('/', "|")].into_iter().filter(|s| !s.is_empty()).collect() } else { vec![] },
                name: { let t = d.text(); if t.is_empty() { "n".into() } else { t } },
                version: if d.ch.flag() { Some(d.text()).filter(|s| !s.is_empty()) } else { None },
                quals: vec![],
                checksum: vec![],
                subpath: vec![],
            };
            let choices = (0..64).map(|_| d.ch.next(256) as u8).collect();
            c14::o_parse(&c14::ParseCase { tuple, choices, spec }, st)
        },
        _ => {
            let spec = d.spec();
            let program = d.program(false);
            c14::o_build(&c14::BuildCase { program, spec }, st)
        },
    }
}

/// Deterministic seed corpus for the fuzz targets: the conformance strings, the plain and one
/// varied spelling of 150 generated tuples, single-fault spellings, the regression inputs of the
/// four repaired defects; for `fz_api`, pseudo-random byte strings for each program kind.
pub fn write_seed_corpus(root: &std::path::Path) {
    use crate::engine::mix;
    let dir = root.join("corpus/fuzz-seed/fz_roundtrip");
    let _ = std::fs::remove_dir_all(&dir);
    std::fs::create_dir_all(&dir).unwrap();
    let mut inputs: Vec<String> = crate::gens::corpus().into_iter().map(str::to_string).collect();
    inputs.extend(
        [
            "pkg:t/n?k=a%26b",
            "pkg:t/n?k=a%26l=c",
            "pkg:nuget/%C7%85",
            "pkg:nuget/%C3%86%C7%85",
            "pkg:maven///n",
            "pkg:t/n?checksum=B:00,a:FF",
            "pkg:t/n#%2e%2e/x",
            "pkg:npm/%40a/b@1?K=v&q=#./s/../t",
            "pkg:pypi/A_.-b..C@1/2",
        ]
        .iter()
        .map(|s| s.to_string()),
    );
    let mut seed = [0u8; 32];
    for (i, b) in seed.iter_mut().enumerate() {
        *b = (mix(&[77, i as u64]) & 0xff) as u8;
    }
    let mut runner = TestRunner::new_with_rng(Config::default(), TestRng::from_seed(RngAlgorithm::ChaCha, &seed));
    let spelled = c01::gspelled();
    for _ in 0..150 {
        if let Ok(t) = spelled.new_tree(&mut runner) {
            let c = t.current();
            inputs.push(crate::spell::spell_plain(&c.tuple));
            inputs.push(crate::spell::spell(&c.tuple, &c.choices).assemble());
        }
    }
    let faulted = c01::gfault();
    for _ in 0..100 {
        if let Ok(t) = faulted.new_tree(&mut runner) {
            if let Some(f) = crate::fault::inject(&t.current()) {
                inputs.push(f.text);
            }
        }
    }
    inputs.retain(|s| s.len() <= 4096);
    for (i, s) in inputs.iter().enumerate() {
        std::fs::write(dir.join(format!("{i:04}")), s.as_bytes()).unwrap();
    }
    let dir = root.join("corpus/fuzz-seed/fz_api");
    let _ = std::fs::remove_dir_all(&dir);
    std::fs::create_dir_all(&dir).unwrap();
    for i in 0..96u64 {
        let len = 64 + (mix(&[i, 1]) % 400) as usize;
        let mut bytes: Vec<u8> = (0..len).map(|j| (mix(&[i, 2, j as u64]) & 0xff) as u8).collect();
        bytes[0] = (i % 6) as u8;
        std::fs::write(dir.join(format!("{i:04}")), &bytes).unwrap();
    }
}
