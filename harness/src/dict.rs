//! A dictionary harvested from the source tree under test, at run time.
//!
//! Every check rebuilds from `/repo`'s current working tree; this module reads the same tree
//! (`purl/src/**/*.rs`) and extracts its string / character literals and its small integer
//! literals. The generators mix them in: a special case for one particular key, type, character
//! or name is spelled out in the source, and a threshold (`16`, `23`, `64`, `[u8; 256]`) is a
//! number in the source - so inputs *at* those strings and *around* those sizes are generated
//! without anybody having to guess them. (The classic fuzzing dictionary, taken from the code.)

use std::path::{Path, PathBuf};
use std::sync::OnceLock;

pub struct Dict {
    pub strings: Vec<String>,
    pub numbers: Vec<usize>,
}

fn source_dir() -> PathBuf {
    PathBuf::from(std::env::var("VERIF_PURL_SRC").unwrap_or_else(|_| "/repo/purl/src".to_string()))
}

fn walk(dir: &Path, out: &mut Vec<PathBuf>) {
    let Ok(rd) = std::fs::read_dir(dir) else { return };
    let mut entries: Vec<PathBuf> = rd.filter_map(|e| e.ok().map(|e| e.path())).collect();
    entries.sort();
    for p in entries {
        if p.is_dir() {
            walk(&p, out);
        } else if p.extension().map(|e| e == "rs").unwrap_or(false) {
            out.push(p);
        }
    }
}

fn unescape(s: &str) -> Option<String> {
    let mut out = String::new();
    let mut it = s.chars().peekable();
    while let Some(c) = it.next() {
        if c != '\\' {
            out.push(c);
            continue;
        }
        match it.next()? {
            'n' => out.push('\n'),
            'r' => out.push('\r'),
            't' => out.push('\t'),
            '0' => out.push('\0'),
            '\\' => out.push('\\'),
            '"' => out.push('"'),
            '\'' => out.push('\''),
            'x' => {
                let h: String = [it.next()?, it.next()?].iter().collect();
                out.push(u8::from_str_radix(&h, 16).ok()? as char);
            },
            'u' => {
                if it.next()? != '{' {
                    return None;
                }
                let mut h = String::new();
                for c in it.by_ref() {
                    if c == '}' {
                        break;
                    }
                    h.push(c);
                }
                out.push(char::from_u32(u32::from_str_radix(&h.replace('_', ""), 16).ok()?)?);
            },
            '\n' => {
                while it.peek().map(|c| c.is_whitespace()).unwrap_or(false) {
                    it.next();
                }
            },
            _ => return None,
        }
    }
    Some(out)
}

fn harvest(text: &str, strings: &mut Vec<String>, numbers: &mut Vec<usize>) {
    let b: Vec<char> = text.chars().collect();
    let mut i = 0;
    let mut in_test_module = false;
    while i < b.len() {
        // stop at the unit tests of a file: their literals are examples, not behaviour
        if !in_test_module && b[i] == '#' && text[text.char_indices().nth(i).map(|x| x.0).unwrap_or(0)..].starts_with("#[cfg(test)]") {
            in_test_module = true;
        }
        if in_test_module {
            break;
        }
        match b[i] {
            '/' if i + 1 < b.len() && b[i + 1] == '/' => {
                // comment (doc comments included): skip the line, but keep back-quoted code spans out
                while i < b.len() && b[i] != '\n' {
                    i += 1;
                }
            },
            '"' => {
                let mut j = i + 1;
                let mut raw = String::new();
                while j < b.len() && b[j] != '"' {
                    if b[j] == '\\' && j + 1 < b.len() {
                        raw.push(b[j]);
                        raw.push(b[j + 1]);
                        j += 2;
                    } else {
                        raw.push(b[j]);
                        j += 1;
                    }
                }
                if let Some(s) = unescape(&raw) {
                    if !s.is_empty() && s.chars().count() <= 48 && !s.contains('{') {
                        strings.push(s);
                    }
                }
                i = j + 1;
            },
            '\'' => {
                // a char literal 'x' or '\x..' (not a lifetime)
                let mut j = i + 1;
                let mut raw = String::new();
                while j < b.len() && j < i + 12 && b[j] != '\'' {
                    if b[j] == '\\' && j + 1 < b.len() {
                        raw.push(b[j]);
                        raw.push(b[j + 1]);
                        j += 2;
                    } else {
                        raw.push(b[j]);
                        j += 1;
                    }
                }
                if j < b.len() && b[j] == '\'' {
                    if let Some(s) = unescape(&raw) {
                        if s.chars().count() == 1 {
                            strings.push(s);
                            i = j + 1;
                            continue;
                        }
                    }
                }
                i += 1;
            },
            c if c.is_ascii_digit() && (i == 0 || !(b[i - 1].is_alphanumeric() || b[i - 1] == '_' || b[i - 1] == '.')) => {
                let mut j = i;
                let mut digits = String::new();
                let hex = c == '0' && j + 1 < b.len() && b[j + 1] == 'x';
                if hex {
                    j += 2;
                }
                while j < b.len() && (b[j].is_ascii_hexdigit() && hex || b[j].is_ascii_digit() || b[j] == '_') {
                    if b[j] != '_' {
                        digits.push(b[j]);
                    }
                    j += 1;
                }
                if let Ok(n) = usize::from_str_radix(&digits, if hex { 16 } else { 10 }) {
                    if (2..=5000).contains(&n) {
                        numbers.push(n);
                    }
                }
                i = j.max(i + 1);
            },
            _ => i += 1,
        }
    }
}

pub fn dict() -> &'static Dict {
    static DICT: OnceLock<Dict> = OnceLock::new();
    DICT.get_or_init(|| {
        let mut files = Vec::new();
        walk(&source_dir(), &mut files);
        let mut strings = Vec::new();
        let mut numbers = Vec::new();
        for f in files {
            if let Ok(text) = std::fs::read_to_string(&f) {
                harvest(&text, &mut strings, &mut numbers);
            }
        }
        strings.sort();
        strings.dedup();
        strings.truncate(600);
        // sizes worth aiming at whatever the source says: the inline capacity of the small-string type
        numbers.extend([16, 23, 32, 64, 128, 256]);
        numbers.sort();
        numbers.dedup();
        numbers.truncate(200);
        if strings.is_empty() {
            strings.push("pkg:".to_string());
        }
        Dict { strings, numbers }
    })
}

/// Sizes around the numbers of the source, not larger than `max`.
pub fn sizes(max: usize) -> Vec<usize> {
    let mut v: Vec<usize> = dict().numbers.iter().flat_map(|n| [n.saturating_sub(1), *n, n + 1]).filter(|n| *n >= 1 && *n <= max).collect();
    v.sort();
    v.dedup();
    if v.is_empty() {
        v.push(1);
    }
    v
}
