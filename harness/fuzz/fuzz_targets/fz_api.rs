#![no_main]
//! Coverage-guided search over API programs: the fuzzer's bytes drive the harness's proptest
//! strategies through proptest's pass-through RNG; the generated case (builder program,
//! qualifier operation sequence, checksum history, user-shape program) is judged by the same
//! model-based oracles as the quick checks.
use libfuzzer_sys::fuzz_target;

fuzz_target!(|data: &[u8]| {
    if let Err(m) = pv::fuzzing::api_oracles_scoped(data, pv::fuzzing::env_scope().as_deref()) {
        panic!("ORACLE {m}");
    }
});
