#![no_main]
//! Coverage-guided search over input strings; the semantic oracles live in the harness library
//! (`pv::fuzzing::string_oracles`): C01 round trip, C03 shape, C04 validity, C07 invariants,
//! C13/C08 differentials, and "no panic" (C06) for all instantiations.
use libfuzzer_sys::fuzz_target;

fuzz_target!(|data: &[u8]| {
    if let Ok(s) = std::str::from_utf8(data) {
        if let Err(m) = pv::fuzzing::string_oracles_scoped(s, pv::fuzzing::env_scope().as_deref()) {
            panic!("ORACLE {m}");
        }
    }
});
