#!/usr/bin/env python3
"""Evaluate changes that are meant to PRESERVE all 19 properties (delivered by sub-agents under /tmp/seed/outP-<K>/):
for each patch: (1) in the scratch worktree /tmp/seed/wtP-<K>: the patch applies and the existing suite stays green;
(2) apply it to /repo, run every quick check, undo; (3) store under /verif/preserving/<K><i>/ with the result.
A check that is not silent on such a change is either a false alarm (to be corrected) or shows that the change
does violate the property after all (to be argued in meta.json 'review')."""
import json, os, subprocess, sys, shutil, re
ALL = [f"C{n:02d}" for n in range(1, 20)]
def sh(cmd, cwd=None, timeout=7200):
    r = subprocess.run(cmd, shell=True, cwd=cwd, capture_output=True, text=True, timeout=timeout)
    return r.returncode, r.stdout + r.stderr
def summarize(out):
    return re.findall(r"test result: (\w+)\. (\d+) passed; (\d+) failed", out)
for k in sys.argv[1:]:
    wt = f"/tmp/seed/wtP-{k}"; od = f"/tmp/seed/outP-{k}"
    for i in (1, 2, 3):
        patch = f"{od}/patch{i}.diff"
        if not os.path.exists(patch): continue
        tag = f"{k}{i}"; dest = f"/verif/preserving/{tag}"
        rec = {"id": tag}
        try: rec.update(json.load(open(f"{od}/meta{i}.json")))
        except Exception as e: rec["meta_error"] = str(e)
        sh("git checkout -- . && git clean -fdq -e target", cwd=wt)
        rc, out = sh(f"git apply {patch}", cwd=wt)
        rec["patch_applies"] = rc == 0
        rc, out = sh("cargo test --workspace --offline --no-fail-fast 2>&1", cwd=wt)
        s = summarize(out)
        passed = sum(int(p) for _, p, _ in s); failed = sum(int(f) for _, _, f in s)
        rec["existing_suite_with_patch"] = f"rc={rc} passed={passed} failed={failed}"
        sh("git checkout -- . && git clean -fdq -e target", cwd=wt)
        rec["usable"] = rec["patch_applies"] and failed == 0 and passed >= 193
        if rec["usable"]:
            if sh("git -C /repo status --porcelain -- purl")[1].strip():
                print("/repo dirty"); sys.exit(2)
            try:
                rc, out = sh(f"git -C /repo apply {patch}")
                res = {}
                for c in ALL:
                    rc, out = sh(f"./check {c} quick", cwd="/verif")
                    msg = [l for l in out.splitlines() if l.startswith("FAILURE section")]
                    res[c] = ("ALARM" if rc == 1 else "silent" if rc == 0 else f"rc{rc}", msg[0][:400] if msg else "")
            finally:
                sh("git -C /repo checkout -- .")
            rec["quick_checks"] = {c: v[0] for c, v in res.items()}
            rec["alarms"] = {c: v[1] for c, v in res.items() if v[0] != "silent"}
        os.makedirs(dest, exist_ok=True)
        shutil.copy(patch, f"{dest}/patch.diff")
        json.dump(rec, open(f"{dest}/meta.json", "w"), indent=1)
        print(tag, "usable" if rec["usable"] else f"NOT USABLE ({rec['existing_suite_with_patch']})", "alarms:", sorted(rec.get("alarms", {})), flush=True)
