#!/usr/bin/env python3
"""Re-run checks against the stored seeded changes (seeded/*/patch.diff), without the scratch worktrees.
usage: tools/recheck_seeded.py [--all] [ids...]     (default: only the check of the change's own property)
Updates meta.json: "caught_by"/"quick_checks" (with --all) or "own_check_recheck"."""
import json, os, subprocess, sys, glob, time
ALL = [f"C{n:02d}" for n in range(1, 20)]
full = "--all" in sys.argv
ids = [a for a in sys.argv[1:] if not a.startswith("--")]
def sh(cmd, cwd=None):
    r = subprocess.run(cmd, shell=True, cwd=cwd, capture_output=True, text=True)
    return r.returncode, r.stdout + r.stderr
head = sh("git -C /verif rev-parse --short HEAD")[1].strip()
missed = []
for d in sorted(glob.glob("/verif/seeded/*/")):
    tag = os.path.basename(d.rstrip("/"))
    if ids and tag not in ids and tag.split("-")[0] not in ids: continue
    m = json.load(open(d + "meta.json"))
    if not m.get("confirmed"): continue
    if sh("git -C /repo status --porcelain -- purl")[1].strip():
        print("/repo dirty"); sys.exit(2)
    try:
        rc, out = sh(f"git -C /repo apply {d}patch.diff")
        if rc != 0: print(tag, "patch does not apply", out[:200]); continue
        checks = ALL if full else [m["property"]]
        res = {}
        for c in checks:
            rc, out = sh(f"./check {c} quick", cwd="/verif")
            msg = [l for l in out.splitlines() if l.startswith("FAILURE section")]
            res[c] = ("CAUGHT" if rc == 1 else "silent" if rc == 0 else f"rc{rc}", msg[0][:300] if msg else "")
    finally:
        sh("git -C /repo checkout -- .")
    own = res[m["property"]][0]
    if full:
        m["quick_checks"] = {c: v[0] for c, v in res.items()}
        m["caught_by"] = [c for c, v in res.items() if v[0] == "CAUGHT"]
        m["first_messages"] = {c: v[1] for c, v in res.items() if v[0] == "CAUGHT"}
        m["matrix_at_commit"] = head
    else:
        m["own_check_recheck"] = {"at_commit": head, "result": own, "message": res[m["property"]][1]}
        if own == "CAUGHT" and m["property"] not in m.get("caught_by", []): m.setdefault("caught_by", []).append(m["property"])
        if own != "CAUGHT" and m["property"] in m.get("caught_by", []): m["caught_by"].remove(m["property"])
    if not os.environ.get("RECHECK_NOWRITE"):     # a run with another VERIF_SEED only reports
        json.dump(m, open(d + "meta.json", "w"), indent=1)
    if own != "CAUGHT": missed.append(tag)
    print(tag, "own:", own, ("| " + " ".join(c for c, v in res.items() if v[0] == "CAUGHT")) if full else "", flush=True)
print("own-check misses:", missed)
