#!/bin/sh
# usage: tools/mutate.sh <patch.diff | -R:<commit>> <Cxx> [<Cxx>...]
# Applies a change to /repo, runs the quick checks, reverts /repo (always), prints one line per check.
PATCH="$1"; shift
cd /repo || exit 2
if [ -n "$(git status --porcelain -- purl purl_test xtask)" ]; then echo "/repo is dirty"; exit 2; fi
cleanup() { git -C /repo checkout -- . ; }
trap cleanup EXIT INT TERM
case "$PATCH" in
  -R:*) git show "${PATCH#-R:}" -- purl | git apply -R || { echo "cannot revert commit"; exit 2; } ;;
  *) git apply "$PATCH" || { echo "patch does not apply"; exit 2; } ;;
esac
for P in "$@"; do
  OUT=$(cd /verif && VERIF_SEED=${VERIF_SEED:-0} ./check "$P" ${TIER:-quick} 2>&1); RC=$?
  echo "== $P rc=$RC $(echo "$OUT" | grep -E '^(FAILURE section|INCONCLUSIVE)' | head -2 | cut -c1-300)"
done
