#!/usr/bin/env python3
"""Regenerate the result tables in DESIGN.md (between the markers) from seeded/*/meta.json and mutants/last_run.json."""
import json, glob, os, re, sys
ROOT = os.path.dirname(os.path.dirname(os.path.abspath(__file__)))
ALL = [f"C{n:02d}" for n in range(1, 20)]
rows = []
for d in sorted(glob.glob(os.path.join(ROOT, "seeded/*/meta.json"))):
    m = json.load(open(d))
    first = None
    fp = os.path.join(os.path.dirname(d), "first_evaluation.json")
    if os.path.exists(fp):
        first = json.load(open(fp))
    if not m.get("confirmed"):
        rows.append(f"| {m['id']} | (not confirmed: {m.get('existing_suite_with_patch','')}, demo {m.get('demo_with_patch','')}) | | | |")
        continue
    own = "yes" if m["property"] in m.get("caught_by", []) else "**no**"
    if first is not None:
        was = "yes" if first["property"] in first.get("caught_by", []) else "no"
        if was != ("yes" if own == "yes" else "no"):
            own = f"{own} (first evaluation: {was}; caught after strengthening)"
        elif own == "yes":
            own = "yes (also at first evaluation)"
    if m.get("note") and "First evaluation" in m.get("note", ""):
        own = f"{own} (first evaluation: no; caught after strengthening)" if "first evaluation" not in own else own
    if m.get("thorough_check"):
        own = f"{own} - quick tier; **yes in the thorough tier** ({m['thorough_check'].get('wall_s')} s)"
    rows.append("| {} | {} | {} | {} | {} |".format(m["id"], m.get("summary", "").replace("|", "\\|").replace("\n", " ")[:260], m.get("needs", "").replace("|", "\\|").replace("\n", " ")[:240], own, " ".join(m.get("caught_by", []))))
seeded = "| id | change | needs | caught by its own property's quick check | quick checks that report a violation |\n|---|---|---|---|---|\n" + "\n".join(rows)
mut = ""
p = os.path.join(ROOT, "mutants/last_run.json")
if os.path.exists(p):
    R = json.load(open(p))
    lines = ["| mutant | existing tests | expected catchers: result |", "|---|---|---|"]
    for r in R:
        lines.append("| {} | {} | {} |".format(r["name"], r.get("tests", "-"), ", ".join(f"{k}: {v}" for k, v in r["results"].items())))
    mut = "\n".join(lines)
path = os.path.join(ROOT, "DESIGN.md")
s = open(path).read()
def put(s, tag, body):
    a, b = f"<!-- BEGIN {tag} -->", f"<!-- END {tag} -->"
    if a not in s: return s
    return s[:s.index(a) + len(a)] + "\n" + body + "\n" + s[s.index(b):]
costs = ["| property | section | kind | evaluations | distinct non-trivial | complete | wall s |", "|---|---|---|---|---|---|---|"]
for f in sorted(glob.glob(os.path.join(ROOT, "evidence/C*.json"))):
    e = json.load(open(f))
    costs.append("| **{}** ({} tier, seed {}) | all | | {} | {} | | {} |".format(e["property_id"], e["tier"], e["seed"], e["coverage"]["evaluations"], e["coverage"]["distinct_nontrivial"], e["wall_s"]))
    for sec in e["coverage"]["sections"]:
        if sec["section"] == "regression-replays" and sec["evaluations"] == 0: continue
        costs.append("| | {} | {} | {} | {} | {} | {} |".format(sec["section"], sec["kind"], sec["evaluations"], sec["distinct_nontrivial"], "yes" if sec["exhaustive"] else "", sec["wall_s"]))
s = put(s, "COSTS", "\n".join(costs))
s = put(s, "SEEDED", seeded)
s = put(s, "MUTANTS", mut)
open(path, "w").write(s)
print("seeded rows:", len(rows), "mutants:", max(0, mut.count("\n") - 1))
