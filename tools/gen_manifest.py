#!/usr/bin/env python3
"""Regenerate /verif/MANIFEST.json from the table below and the list of properties the harness implements."""
import json, subprocess, os, sys
ROOT = os.path.dirname(os.path.dirname(os.path.abspath(__file__)))
props = [json.loads(l) for l in open(os.path.join(ROOT, "properties.jsonl"))]
try:
    implemented = subprocess.check_output([os.path.join(ROOT, "harness/target/release/pv"), "--list"], text=True).split()
except Exception as e:
    print("cannot list implemented properties:", e, file=sys.stderr); sys.exit(1)

TABLE = json.load(open(os.path.join(ROOT, "tools/manifest_table.json")))
checks = []
na = []
for p in props:
    pid = p["id"]
    if pid in implemented and pid in TABLE:
        t = TABLE[pid]
        checks.append({
            "property_id": pid,
            "quick_cmd": f"./check {pid} quick",
            "thorough_cmd": f"./check {pid} thorough",
            "evidence_file": f"/verif/evidence/{pid}.json",
            "replay_cmd_template": f"./check {pid} --replay {{path}}",
            "engine": "pv",
            "level_claimed": {"category": "exploration", "text": t["level_text"], "design_ref": t["design_ref"]},
            "level_note": t["level_note"],
            "technique": t["technique"],
        })
    else:
        na.append({"property_id": pid, "reason": TABLE.get(pid, {}).get("na_reason", "check not built yet (work in progress); the property is decidable by generated-input search, see DESIGN.md section 4")})
m = {
    "version": 1,
    "setup_cmd": "./setup.sh",
    "hooks": {
        "guard": "--cfg purl_verif",
        "enable": "no source hooks are needed: every observation point is public API; checks build /repo/purl as a path dependency of /verif/harness",
        "baseline_off_cmd": "cd /repo && (cargo nextest run --workspace --no-fail-fast --offline || cargo test --workspace --no-fail-fast --offline)",
        "source_commits": [],
        "add_only": True,
    },
    "engines": [{
        "name": "pv",
        "path": "/verif/harness",
        "serves_properties": [c["property_id"] for c in checks],
        "kind_free_text": "property-based testing: proptest strategies (16 workers, fixed seeds derived from VERIF_SEED), complete enumeration of bounded sub-spaces, explicit reference models / round trips / differentials / metamorphic relations as oracles, proptest shrinking, JSON replay files; libFuzzer (cargo-fuzz) campaigns in the thorough tier of C01/C06",
    }],
    "checks": checks,
    "notes": "Exit codes: 0 held, 1 VIOLATION (line 'VIOLATION property=<id> replay=<path>'), 2 inconclusive (harness does not build against the tree, watchdog, generator self-check failed) - never a violation. known_findings.txt lists four repaired defects (fix: commits 4d1f320 d16825b 9c0471e e9d1e04 in /repo) and no open finding.",
    "not_applicable": na,
}
if not na:
    del m["not_applicable"]
json.dump(m, open(os.path.join(ROOT, "MANIFEST.json"), "w"), indent=1)
print("checks:", [c["property_id"] for c in checks], "not claimed:", [n["property_id"] for n in na])
