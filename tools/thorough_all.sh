#!/bin/sh
# run the thorough tier of every property, one after the other; prints one summary line each
cd "$(dirname "$0")/.."
for p in C01 C02 C03 C04 C05 C06 C07 C08 C09 C10 C11 C12 C13 C14 C15 C16 C17 C18 C19; do
  START=$(date +%s)
  OUT=$(VERIF_SEED=${VERIF_SEED:-0} ./check $p thorough 2>&1); RC=$?
  echo "== $p rc=$RC wall=$(( $(date +%s) - START ))s :: $(echo "$OUT" | grep -E '^(C[0-9]+ thorough|FAILURE section|INCONCLUSIVE)' | head -3 | tr '\n' ' ' | cut -c1-400)"
done
