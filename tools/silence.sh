#!/bin/sh
# run every quick check on the unchanged tree with several seeds; any non-zero exit is printed
cd "$(dirname "$0")/.."
SEEDS=${SEEDS:-"1 2 3 4 5"}
BAD=0
for s in $SEEDS; do
  for p in C01 C02 C03 C04 C05 C06 C07 C08 C09 C10 C11 C12 C13 C14 C15 C16 C17 C18 C19; do
    OUT=$(VERIF_SEED=$s ./check $p ${TIER:-quick} 2>&1); RC=$?
    if [ $RC -ne 0 ] || echo "$OUT" | grep -q VIOLATION; then BAD=$((BAD+1)); echo "seed=$s $p rc=$RC"; echo "$OUT" | grep -E "FAILURE|INCONCLUSIVE|VIOLATION" | head -4; fi
  done
  echo "seed $s done"
done
echo "non-silent runs: $BAD"
