#!/usr/bin/env python3
"""Confirm and evaluate seeded changes delivered by sub-agents.
usage: tools/seeded.py <ID> [<ID> ...]      (reads /tmp/seed/out-<ID>/patch<i>.diff, demo<i>.rs, meta<i>.json; uses worktree /tmp/seed/wt-<ID>)
For each change: (1) in the scratch worktree: demo passes on the clean tree; with the patch the existing suite is green and the demo fails;
(2) apply the patch to /repo, run every quick check, undo; (3) store under /verif/seeded/<ID>-<i>/."""
import json, os, subprocess, sys, shutil, re, time
ALL = [f"C{n:02d}" for n in range(1, 20)]
def sh(cmd, cwd=None, timeout=3600):
    r = subprocess.run(cmd, shell=True, cwd=cwd, capture_output=True, text=True, timeout=timeout)
    return r.returncode, r.stdout + r.stderr
def summarize(out):
    ok = re.findall(r"test result: (\w+)\. (\d+) passed; (\d+) failed", out)
    return ok
for pid in sys.argv[1:]:
    PFX = os.environ.get("SEED_ROUND", "")          # "" first round, "2" hard-mode round
    wt = f"/tmp/seed/wt{PFX}-{pid}"; od = f"/tmp/seed/out{PFX}-{pid}"
    for i in (1, 2, 3):
        patch = f"{od}/patch{i}.diff"
        if not os.path.exists(patch): continue
        tag = f"{pid}-{ {'': '', '2': 'h', '3': 'e', '4': 'x', '5': 'y', '6': 'z', '7': 'w', '8': 'v'}[PFX] }{i}"
        dest = f"/verif/seeded/{tag}"
        rec = {"id": tag, "property": pid, "round": ({"": "first round", "2": "hard mode (second round)", "3": "expert mode (third round)", "4": "informed mode (fourth round: the agent was told what the harness already does)", "5": "informed mode, second batch (fifth round)", "6": "informed mode, third batch (sixth round)", "7": "informed mode, fourth batch (seventh round)", "8": "plain mode, eighth round (property text only)"}[PFX]), "ran": []}
        try: rec.update(json.load(open(f"{od}/meta{i}.json")))
        except Exception as e: rec["meta_error"] = str(e)
        sh("git checkout -- . && git clean -fdq -e target", cwd=wt)
        os.makedirs(f"{wt}/purl/tests", exist_ok=True)
        shutil.copy(f"{od}/demo{i}.rs", f"{wt}/purl/tests/seeded_demo.rs")
        feats_list = ["--features serde"] if "serde" in open(f"{od}/demo{i}.rs").read() else [""]
        if pid == "C17":
            feats_list = ["", "--no-default-features", "--no-default-features --features package-type"]
        clean_ok = True
        for feats in feats_list:
            rc, out = sh(f"cargo test --offline -p purl {feats} --test seeded_demo 2>&1", cwd=wt)
            clean_ok = clean_ok and rc == 0
            rec["ran"].append(f"clean tree: cargo test --offline -p purl {feats} --test seeded_demo -> rc={rc} {summarize(out)}")
        rec["demo_on_clean_tree"] = "pass" if clean_ok else "FAIL"
        rc, out = sh(f"git apply {patch}", cwd=wt)
        rec["patch_applies"] = rc == 0
        os.rename(f"{wt}/purl/tests/seeded_demo.rs", f"{wt}/seeded_demo.rs.aside")
        rc, out = sh("cargo test --workspace --offline --no-fail-fast 2>&1", cwd=wt)
        s = summarize(out)
        passed = sum(int(p) for _, p, _ in s); failed = sum(int(f) for _, _, f in s)
        rec["existing_suite_with_patch"] = f"rc={rc} passed={passed} failed={failed}"
        rec["ran"].append(f"patched: cargo test --workspace --offline --no-fail-fast -> rc={rc} passed={passed} failed={failed}")
        if pid == "C17":
            for feats in feats_list[1:]:
                rc2, out2 = sh(f"cargo test --offline -p purl {feats} --no-fail-fast 2>&1", cwd=wt)
                s2 = summarize(out2)
                f2 = sum(int(f) for _, _, f in s2)
                failed += f2
                rec["ran"].append(f"patched: cargo test --offline -p purl {feats} -> rc={rc2} passed={sum(int(p) for _, p, _ in s2)} failed={f2}")
        os.rename(f"{wt}/seeded_demo.rs.aside", f"{wt}/purl/tests/seeded_demo.rs")
        any_fail = False
        for feats in feats_list:
            rc, out = sh(f"cargo test --offline -p purl {feats} --test seeded_demo 2>&1", cwd=wt)
            any_fail = any_fail or rc != 0
            rec["ran"].append(f"patched: cargo test --offline -p purl {feats} --test seeded_demo -> rc={rc} {summarize(out)}")
        rec["demo_with_patch"] = "fail" if any_fail else "PASSES (not a valid seeded change)"
        sh("git checkout -- . && git clean -fdq -e target", cwd=wt)
        valid = rec["demo_on_clean_tree"] == "pass" and rec["patch_applies"] and failed == 0 and passed >= 193 and rec["demo_with_patch"] == "fail"
        rec["confirmed"] = valid
        caught = {}
        if valid:
            if sh("git -C /repo status --porcelain -- purl")[1].strip():
                print("/repo dirty, stopping"); sys.exit(2)
            try:
                rc, out = sh(f"git -C /repo apply {patch}")
                # SEED_CHECKS=own limits the run to the check of the change's own property (the full matrix takes ~7 min per change)
                for c in ([pid] if os.environ.get('SEED_CHECKS') == 'own' else ALL):
                    t0 = time.time()
                    rc, out = sh(f"./check {c} quick", cwd="/verif")
                    msg = [l for l in out.splitlines() if l.startswith("FAILURE section")]
                    caught[c] = {"rc": rc, "s": round(time.time() - t0, 1), "message": (msg[0][:400] if msg else "")}
            finally:
                sh("git -C /repo checkout -- .")
            rec["quick_checks"] = {c: ("CAUGHT" if v["rc"] == 1 else "silent" if v["rc"] == 0 else f"rc{v['rc']}") for c, v in caught.items()}
            rec["caught_by"] = [c for c, v in caught.items() if v["rc"] == 1]
            rec["first_messages"] = {c: v["message"] for c, v in caught.items() if v["rc"] == 1}
            rec["ran"].append("git -C /repo apply patch.diff; ./check Cxx quick for " + ("the own property only" if os.environ.get("SEED_CHECKS") == "own" else "C01..C19") + "; git -C /repo checkout -- .")
        os.makedirs(dest, exist_ok=True)
        shutil.copy(patch, f"{dest}/patch.diff"); shutil.copy(f"{od}/demo{i}.rs", f"{dest}/demo.rs")
        json.dump(rec, open(f"{dest}/meta.json", "w"), indent=1)
        print(f"{tag}: confirmed={valid} suite={rec['existing_suite_with_patch']} own-check={'CAUGHT' if pid in rec.get('caught_by', []) else 'MISSED'} caught_by={rec.get('caught_by')}", flush=True)
