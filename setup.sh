#!/bin/sh
# Build the framework offline from files on disk only.
set -e
ROOT=$(cd "$(dirname "$0")" && pwd)
export CARGO_NET_OFFLINE=true
cd "$ROOT/harness" && cargo build --release --offline --bin pv
echo "setup ok"
