#!/bin/sh
# Build the framework offline from files on disk only.
set -e
ROOT=$(cd "$(dirname "$0")" && pwd)
export CARGO_NET_OFFLINE=true
cd "$ROOT/harness" && cargo build --release --offline --bin pv
cd "$ROOT/featbin"
for FS in "none:" "pt:package-type" "default:package-type,smartstring" "serde:package-type,smartstring,serde"; do
    N=${FS%%:*}; F=${FS#*:}
    cargo build --release --offline --no-default-features --features "$F" --target-dir "target/$N"
done
echo "setup ok"
