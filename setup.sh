#!/bin/sh
# Build the framework offline from files on disk only.
set -e
ROOT=$(cd "$(dirname "$0")" && pwd)
export CARGO_NET_OFFLINE=true
cd "$ROOT/harness" && cargo build --release --offline --bin pv
cd "$ROOT/featbin"
for FS in "none:" "pt:package-type" "default:package-type,smartstring" "serde:package-type,smartstring,serde"; do
    N=${FS%%:*}; F=${FS#*:}
    cargo build --release --offline --no-default-features --features "$F" --target-dir "target/$N"
done
# libFuzzer targets of the thorough tier (C01, C06). The quick tier does not need them, so a
# failure here (e.g. no nightly toolchain) is reported but does not fail the setup; the thorough
# checks rebuild the targets themselves and report exit 2 if that is impossible.
cd "$ROOT/harness" && (cargo +nightly fuzz build >/dev/null 2>&1 && echo "fuzz targets built") || echo "WARNING: cargo +nightly fuzz build failed; the thorough tier of C01/C06 will be inconclusive"
echo "setup ok"
